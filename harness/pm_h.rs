// Mounted under src/tree_store/page_store/page_manager.rs as `mod verif_kani` (cfg(kani)).
// C01 / C03 / C08 / C20: the real TransactionalMemory::{commit, non_durable_commit,
// flush_shutdown_header, close, begin_writable, clear_recovery_required} on a
// TransactionalMemory built by struct literal; storage calls are stubs that log events.
#![allow(dead_code, unused_imports, unused_comparisons, static_mut_refs, clippy::all, clippy::pedantic)]

use super::*;
use crate::tree_store::page_store::cached_file::verif_kani as cf;
use crate::tree_store::page_store::header::verif_kani as hh;
use crate::tree_store::page_store::header::{DB_HEADER_SIZE, DatabaseHeader};
use alloc::sync::Arc;

// ---- event log --------------------------------------------------------------------------------

pub(crate) const EV_W: u8 = 1; // write_header(image)
pub(crate) const EV_F: u8 = 2; // flush (write buffer + sync_data)
pub(crate) const EV_R: u8 = 3; // resize(len)
pub(crate) const EV_S: u8 = 4; // sync_file
pub(crate) const EV_MAX: usize = 8;
static mut EV_N: usize = 0;
static mut EV_KIND: [u8; EV_MAX] = [0; EV_MAX];
static mut EV_ARG: [u64; EV_MAX] = [0; EV_MAX];
static mut EV_IMG_N: usize = 0;
// what a concurrent observer could read at the moment of each event (no lock is held then)
static mut EV_PUB_ID: [u64; EV_MAX] = [0; EV_MAX];
static mut EV_PUB_DURABLE_ID: [u64; EV_MAX] = [0; EV_MAX];
static mut EV_PUB_SEEN: [bool; EV_MAX] = [false; EV_MAX];
// index of the storage event that fails (usize::MAX: none)
static mut FAIL_AT: usize = usize::MAX;
// The header each write_header call was given (a clone; by c10_header_codec the byte image
// to_bytes(true) is a function of exactly its fields, and write_header's body is the single line
// `storage.write(0, ..).copy_from_slice(&header.to_bytes(true))`).  Three separate statics: no
// nested arrays (DESIGN.md 9.1).
static mut EV_H0: Option<DatabaseHeader> = None;
static mut EV_H1: Option<DatabaseHeader> = None;
static mut EV_H2: Option<DatabaseHeader> = None;

fn ev_hdr(i: usize) -> &'static DatabaseHeader {
    unsafe {
        match i {
            0 => EV_H0.as_ref().unwrap(),
            1 => EV_H1.as_ref().unwrap(),
            _ => EV_H2.as_ref().unwrap(),
        }
    }
}

fn log_event(this: &TransactionalMemory, kind: u8, arg: u64) -> Result {
    unsafe {
        assert!(EV_N < EV_MAX, "more storage events than the harness bound");
        EV_KIND[EV_N] = kind;
        EV_ARG[EV_N] = arg;
        // yield point: an observer thread reads the published commit point here
        // (when the caller holds the state lock the observer is blocked and sees nothing)
        if let Ok(st) = this.state.try_lock() {
            EV_PUB_ID[EV_N] = st.latest_slot().transaction_id.raw_id();
            EV_PUB_DURABLE_ID[EV_N] = st.header.primary_slot().transaction_id.raw_id();
            EV_PUB_SEEN[EV_N] = true;
        }
        let idx = EV_N;
        EV_N += 1;
        if idx == FAIL_AT {
            // the failing call latches the backend, as CheckedBackend does (c08_checked_backend_latch)
            this.storage.verif_latch_failure();
            return Err(StorageError::PreviousIo);
        }
    }
    Ok(())
}

pub(in crate::tree_store::page_store) fn stub_write_header(this: &TransactionalMemory, header: &DatabaseHeader) -> Result {
    unsafe {
        assert!(EV_IMG_N < 3);
        match EV_IMG_N {
            0 => EV_H0 = Some(header.clone()),
            1 => EV_H1 = Some(header.clone()),
            _ => EV_H2 = Some(header.clone()),
        }
        EV_IMG_N += 1;
    }
    log_event(this, EV_W, 0)
}

// PagedCachedFile methods are stubbed through free functions taking the receiver first
pub(in crate::tree_store::page_store) fn stub_flush(this: &PagedCachedFile) -> Result {
    let tm = unsafe { &*CUR_MEM };
    let _ = this;
    log_event(tm, EV_F, 0)
}

fn stub_resize(this: &PagedCachedFile, len: u64) -> Result {
    let tm = unsafe { &*CUR_MEM };
    let _ = this;
    log_event(tm, EV_R, len)
}

fn stub_sync_file(this: &PagedCachedFile) -> Result {
    let tm = unsafe { &*CUR_MEM };
    let _ = this;
    log_event(tm, EV_S, 0)
}

fn stub_not_panicking() -> bool {
    false
}

static mut CUR_MEM: *const TransactionalMemory = core::ptr::null();

/// TransactionalMemory by struct literal (TransactionalMemory::new does not finish symbolic
/// execution): the given header, no allocators, empty unpersisted state, literal cache.
impl TransactionalMemory {
    pub(crate) fn verif_latch_failure(&self) {
        self.storage.verif_latch_failure();
    }
}

impl TransactionalMemory {
    pub(crate) fn verif_primary_index(&self) -> usize {
        self.state.lock().unwrap().header.verif_primary_index()
    }
    pub(crate) fn verif_flags(&self) -> (bool, bool) {
        let st = self.state.lock().unwrap();
        (st.header.recovery_required, st.header.two_phase_commit)
    }
    pub(crate) fn verif_set_primary(&self, p: usize) {
        self.state.lock().unwrap().header.verif_set_primary_index(p);
    }
    pub(crate) fn verif_set_two_phase(&self, v: bool) {
        self.state.lock().unwrap().header.two_phase_commit = v;
    }
}

/// (number of storage events, their kinds, god byte of the i-th header image)
pub(crate) fn events() -> (usize, [u8; EV_MAX]) {
    unsafe { (EV_N, EV_KIND) }
}

/// god byte the i-th written header serialises to (bit 0 primary, bit 1 recovery, bit 2 2PC:
/// formula proved by c10_header_codec)
pub(crate) fn image_god_byte(i: usize) -> u8 {
    let h = ev_hdr(i);
    (h.verif_primary_index() as u8) | if h.recovery_required { 2 } else { 0 } | if h.two_phase_commit { 4 } else { 0 }
}

pub(crate) fn set_cur_mem(mem: &TransactionalMemory) {
    unsafe {
        CUR_MEM = mem as *const TransactionalMemory;
    }
}

pub(crate) fn backend_counters() -> (u32, u32) {
    unsafe { (cf::B_CLOSE, cf::B_AFTER_CLOSE) }
}

pub(crate) fn literal_mem_default() -> TransactionalMemory {
    literal_mem(hh::any_two_valid_slots_header(0), None)
}

/// every field a constant (one symbolic byte inside an Arc'ed struct defeats CBMC's constant
/// propagation for the whole struct: DESIGN.md 9.1)
pub(crate) fn literal_mem_concrete() -> TransactionalMemory {
    literal_mem(hh::concrete_header(), None)
}

fn literal_mem(header: DatabaseHeader, allocators: Option<Allocators>) -> TransactionalMemory {
    TransactionalMemory {
        unpersisted: Mutex::new(UnpersistedState::default()),
        storage: cf::literal_cached_file(512),
        state: Mutex::new(InMemoryState {
            header,
            allocators,
            read_from_secondary: false,
        }),
        #[cfg(debug_assertions)]
        open_dirty_pages: Arc::new(Mutex::new(PageNumberHashSet::default())),
        #[cfg(debug_assertions)]
        read_page_ref_counts: Arc::new(Mutex::new(PageNumberHashMap::default())),
        #[cfg(debug_assertions)]
        allocated_pages: Arc::new(Mutex::new(PageNumberHashSet::default())),
        needs_repair: AtomicBool::new(false),
        page_size: 512,
        region_size: 16 * 512,
        region_header_with_padding_size: 0,
    }
}

fn img_eq(a: &[u8; DB_HEADER_SIZE], b: &[u8; DB_HEADER_SIZE]) -> bool {
    let mut eq = true;
    let mut i = 0usize;
    while i < DB_HEADER_SIZE / 16 {
        let mut x = [0u8; 16];
        let mut y = [0u8; 16];
        x.copy_from_slice(&a[i * 16..i * 16 + 16]);
        y.copy_from_slice(&b[i * 16..i * 16 + 16]);
        if u128::from_le_bytes(x) != u128::from_le_bytes(y) {
            eq = false;
        }
        i += 1;
    }
    eq
}

// ---- C01 / C03: event order of a durable commit ------------------------------------------------

fn commit_events_body(p: usize, two_phase: bool, with_fault: bool) {
    let h0 = hh::any_two_valid_slots_header(p);
    let old_id = h0.primary_slot().transaction_id;
    let old_user = h0.primary_slot().user_root;
    let old_sys = h0.primary_slot().system_root;
    let mem = literal_mem(h0.clone(), None);
    // a non-durable commit may be pending: readers are then served from the secondary slot, and
    // must keep being served from it until the durable commit is published
    let pending: bool = kani::any();
    if pending {
        kani::assume(h0.secondary_slot().transaction_id > old_id);
        mem.state.lock().unwrap().read_from_secondary = true;
    }
    let visible_id = if pending { h0.secondary_slot().transaction_id } else { old_id };
    unsafe {
        CUR_MEM = &mem as *const TransactionalMemory;
        FAIL_AT = if with_fault { kani::any() } else { usize::MAX };
    }
    let prelatched: bool = if with_fault { kani::any() } else { false };
    if prelatched {
        mem.storage.verif_latch_failure();
    }
    let id = TransactionId::new(kani::any());
    kani::assume(id > old_id && id > visible_id);
    let user = hh::any_root();
    let sys = hh::any_root();

    let r = mem.commit(user, sys, id, two_phase, ShrinkPolicy::Never);

    // expected images, by the header methods on a clone of the pre-state
    let mut h1 = h0.clone();
    h1.write_secondary_slot(id, user, sys);
    let mut h2 = h1.clone();
    h2.swap_primary_slot();
    h2.two_phase_commit = two_phase;
    let expected: [u8; 4] = if two_phase { [EV_W, EV_F, EV_W, EV_F] } else { [EV_W, EV_W, EV_F, 0] };
    let n_expected = if two_phase { 4 } else { 3 };
    let n = unsafe { EV_N };
    let fail_at = unsafe { FAIL_AT };
    let st = mem.state.lock().unwrap();
    if prelatched {
        assert!(r.is_err() && n == 0, "a latched failure refuses the commit before any storage call");
    } else if fail_at < n_expected {
        assert!(r.is_err(), "a failed storage call fails the commit");
        assert!(n == fail_at + 1, "nothing is issued after the failing call");
    } else {
        assert!(r.is_ok(), "no failure: commit succeeds");
        assert!(n == n_expected, "exact number of storage events");
    }
    // the events issued are a prefix of the expected sequence
    let mut i = 0usize;
    let mut img = 0usize;
    while i < 4 {
        if i < n {
            assert!(unsafe { EV_KIND[i] } == expected[i], "storage events in the documented order");
            if expected[i] == EV_W {
                let want = if img == 0 { &h1 } else { &h2 };
                assert!(hh::header_fields_eq(ev_hdr(img), want), "the header written equals the header-method result");
                assert!(ev_hdr(img).recovery_required, "recovery_required stays set in every header written");
                img += 1;
            }
            // observer: nothing of the new commit is visible while commit() is still running
            assert!(unsafe { EV_PUB_SEEN[i] }, "commit() holds no lock across a storage call");
            assert!(unsafe { EV_PUB_ID[i] } == visible_id.raw_id(), "the commit point visible before commit() is still the one published while it runs (never moves backwards)");
            assert!(unsafe { EV_PUB_DURABLE_ID[i] } == old_id.raw_id());
        }
        i += 1;
    }
    if r.is_ok() {
        assert!(st.header.primary_slot().transaction_id == id);
        assert!(hh::root_eq(&st.header.primary_slot().user_root, &user));
        assert!(hh::root_eq(&st.header.primary_slot().system_root, &sys));
        assert!(st.header.two_phase_commit == two_phase && st.header.recovery_required);
        assert!(!st.read_from_secondary);
        assert!(st.header.secondary_slot().transaction_id == old_id, "the superseded commit is the secondary");
        kani::cover!(pending, "durable commit over a pending non-durable commit");
        kani::cover!(!pending, "commit completed");
    } else {
        assert!(st.header.primary_slot().transaction_id == old_id, "failed commit publishes nothing");
        assert!(hh::root_eq(&st.header.primary_slot().user_root, &old_user));
        assert!(hh::root_eq(&st.header.primary_slot().system_root, &old_sys));
        assert!(st.read_from_secondary == pending, "a failed commit leaves the visible commit point unchanged");
        assert!(st.latest_slot().transaction_id == visible_id);
        assert!(st.header.verif_primary_index() == h0.verif_primary_index());
        kani::cover!(!prelatched && fail_at == 1, "failed at the second storage call");
        kani::cover!(prelatched, "refused: failure already latched");
    }
    drop(st);
    core::mem::forget(r);
    core::mem::forget(mem);
}


macro_rules! commit_harness {
    ($name:ident, $p:expr, $tp:expr, $fault:expr) => {
        #[kani::proof]
        #[kani::unwind(22)]
        #[kani::stub(TransactionalMemory::write_header, stub_write_header)]
        #[kani::stub(PagedCachedFile::flush, stub_flush)]
        #[kani::stub(PagedCachedFile::resize, stub_resize)]
        #[kani::stub(PagedCachedFile::sync_file, stub_sync_file)]
        #[kani::stub(crate::tree_store::page_store::page_manager::xxh3_checksum, hh::uf_checksum)]
        #[kani::stub(alloc::fmt::format, hh::no_format)]
        fn $name() {
            commit_events_body($p, $tp, $fault);
        }
    };
}

// @harness props=C01,C03 tier=quick timeout=2400 mem=24 rss=5 stubbing=1 replay=scenario:commit_events flavor=nodebug optcover=failed|refused
// @desc the real commit() from an arbitrary header state, 1PC or 2PC, WITHOUT storage failure: the storage events are exactly W(H1) [F if two_phase] W(H2) F, where H1/H2 are byte-equal to the images obtained by write_secondary_slot(id, roots) and then swap_primary_slot + two_phase flag on a clone of the pre-state header (the guarantee c01_crash_recover assumes), both images keep recovery_required, and commit returns Ok; at every event a concurrent observer still reads the OLD commit point (nothing is published before the final flush returned); on return the published header is H2 and reads are served from the primary.
// @functions TransactionalMemory::commit, DatabaseHeader::{write_secondary_slot,swap_primary_slot,to_bytes,primary_slot,secondary_slot}, TransactionHeader::to_bytes, InMemoryState::latest_slot, PagedCachedFile::check_io_errors, CheckedBackend::check_failure, UnpersistedState::clear
// @bound one commit; ShrinkPolicy::Never; geometry 512/0/16 one region; pre-state slots, flags, new roots, new id (above the primary's), symbolic; commit mode (1pc/2pc) and primary index (p0/p1) fixed per harness
// @stubs TransactionalMemory::write_header -> logs the real to_bytes image; PagedCachedFile::{flush,resize,sync_file} -> log events, fail on demand; xxh3_checksum -> injective uninterpreted function; alloc::fmt::format -> empty
// @assumes mutex-protected sections are atomic; the observer runs only where commit() holds no lock (inside the storage calls)
commit_harness!(c01_commit_events_1pc_p0, 0, false, false);
commit_harness!(c01_commit_events_2pc_p0, 0, true, false);
commit_harness!(c01_commit_events_1pc_p1, 1, false, false);
commit_harness!(c01_commit_events_2pc_p1, 1, true, false);

// @harness props=C08,C01 tier=quick timeout=2400 mem=24 rss=6 stubbing=1 replay=scenario:commit_events flavor=nodebug
// @desc the real commit() from an arbitrary header state, 1PC or 2PC, with at most one injected storage failure at an arbitrary event, or a failure already latched: without a failure the storage events are exactly W(H1) [F if two_phase] W(H2) F, where H1/H2 are byte-equal to the images obtained by write_secondary_slot(id, roots) and then swap_primary_slot + two_phase flag on a clone of the pre-state header (the guarantee c01_crash_recover assumes), both images keep recovery_required, and commit returns Ok; at every event a concurrent observer still reads the OLD commit point (nothing is published before the final flush returned); on return the published header is H2 and reads are served from the primary. With a failure injected at event k: commit returns Err, the events are the prefix up to k, and the published state (ids, roots, read_from_secondary) is untouched. With a failure already latched: Err before any storage event.
// @functions TransactionalMemory::commit, DatabaseHeader::{write_secondary_slot,swap_primary_slot,to_bytes,primary_slot,secondary_slot}, TransactionHeader::to_bytes, InMemoryState::latest_slot, PagedCachedFile::check_io_errors, CheckedBackend::check_failure, UnpersistedState::clear
// @bound one commit; ShrinkPolicy::Never; geometry 512/0/16 one region; pre-state slots, flags, new roots, new id (above the primary's), failure position symbolic; commit mode and primary index fixed per harness
// @stubs TransactionalMemory::write_header -> logs the real to_bytes image; PagedCachedFile::{flush,resize,sync_file} -> log events, fail on demand; xxh3_checksum -> injective uninterpreted function; alloc::fmt::format -> empty
// @assumes mutex-protected sections are atomic; the observer runs only where commit() holds no lock (inside the storage calls)
commit_harness!(c08_commit_fault_1pc, 0, false, true);
commit_harness!(c08_commit_fault_2pc, 1, true, true);

// @harness props=C01,C03 tier=quick timeout=1800 mem=16 stubbing=1 replay=scenario:non_durable
// @desc the real non_durable_commit(): issues no header write, no flush, no resize (so the disk image - and what any crash recovers - is unchanged); afterwards an observer reads the new id and roots from the secondary slot (id and root come from the same slot), the durable id/roots are still the old ones; with a failure latched it returns Err and publishes nothing
// @functions TransactionalMemory::{non_durable_commit,get_last_committed_transaction_id,get_data_root,get_system_root,get_last_durable_transaction_id,get_durable_data_root,pending_non_durable_commit}, PagedCachedFile::write_barrier, DatabaseHeader::write_secondary_slot, InMemoryState::latest_slot
// @bound one non-durable commit with an empty set of newly allocated pages; header state, id, roots symbolic
// @stubs TransactionalMemory::write_header, PagedCachedFile::{flush,resize,sync_file} -> log events (any call is a violation); alloc::fmt::format -> empty
#[kani::proof]
#[kani::unwind(22)]
#[kani::stub(TransactionalMemory::write_header, stub_write_header)]
#[kani::stub(PagedCachedFile::flush, stub_flush)]
#[kani::stub(PagedCachedFile::resize, stub_resize)]
#[kani::stub(PagedCachedFile::sync_file, stub_sync_file)]
#[kani::stub(alloc::fmt::format, hh::no_format)]
fn c03_non_durable_commit() {
    let p: usize = kani::any();
    kani::assume(p <= 1);
    let h0 = hh::any_two_valid_slots_header(p);
    let old_id = h0.primary_slot().transaction_id;
    let old_user = h0.primary_slot().user_root;
    let mem = literal_mem(h0.clone(), None);
    unsafe {
        CUR_MEM = &mem as *const TransactionalMemory;
    }
    let prelatched: bool = kani::any();
    if prelatched {
        mem.storage.verif_latch_failure();
    }
    let id = TransactionId::new(kani::any());
    kani::assume(id > old_id);
    let user = hh::any_root();
    let sys = hh::any_root();
    let r = mem.non_durable_commit(user, sys, id, PageNumberHashSet::default());
    assert!(unsafe { EV_N } == 0, "a non-durable commit issues no header write, flush or resize");
    let seen_id = mem.get_last_committed_transaction_id().unwrap();
    let seen_user = mem.get_data_root();
    let seen_sys = mem.get_system_root();
    let durable = mem.get_last_durable_transaction_id().unwrap();
    assert!(durable == old_id, "durable commit point unchanged");
    assert!(hh::root_eq(&mem.get_durable_data_root(), &old_user));
    if prelatched {
        assert!(r.is_err());
        assert!(seen_id == old_id && hh::root_eq(&seen_user, &old_user), "refused commit publishes nothing");
        assert!(!mem.pending_non_durable_commit());
    } else {
        assert!(r.is_ok());
        assert!(seen_id == id && hh::root_eq(&seen_user, &user) && hh::root_eq(&seen_sys, &sys),
            "id and roots observed after the commit all belong to the new commit");
        assert!(mem.pending_non_durable_commit());
        kani::cover!(true, "non-durable commit published");
    }
    core::mem::forget(r);
    core::mem::forget(mem);
}

// ---- C01 / C08 / C20: shutdown -----------------------------------------------------------------

// @harness props=C01,C08,C20 tier=quick timeout=2350 mem=20 rss=10 stubbing=1 replay=scenario:shutdown flavor=nodebug
// @desc the real close(): recovery_required is cleared on disk only when no I/O error is latched, an allocator state is loaded, needs_repair is clear and the preceding flush succeeded - then the events are F W(clean) F and the image has the flag clear; in every other case no header is written (so the flag stays set and the next open repairs); backend.close() is called exactly once in every case, after the last storage event
// @functions TransactionalMemory::{close,flush_shutdown_header,needs_repair}, PagedCachedFile::{close,check_io_errors}, CheckedBackend::{close,check_failure}
// @bound one close; header state, latched error, needs_repair, allocator presence, failure position symbolic
// @stubs TransactionalMemory::write_header, PagedCachedFile::{flush,resize,sync_file} -> log events, fail on demand; crate::panicking -> false; xxh3_checksum -> injective uninterpreted function; alloc::fmt::format -> empty
#[kani::proof]
#[kani::unwind(22)]
#[kani::stub(TransactionalMemory::write_header, stub_write_header)]
#[kani::stub(PagedCachedFile::flush, stub_flush)]
#[kani::stub(PagedCachedFile::resize, stub_resize)]
#[kani::stub(PagedCachedFile::sync_file, stub_sync_file)]
#[kani::stub(crate::panicking, stub_not_panicking)]
#[kani::stub(crate::tree_store::page_store::page_manager::xxh3_checksum, hh::uf_checksum)]
#[kani::stub(alloc::fmt::format, hh::no_format)]
fn c08_shutdown_events() {
    let p: usize = kani::any();
    kani::assume(p <= 1);
    let h0 = hh::any_two_valid_slots_header(p);
    let with_alloc: bool = kani::any();
    let allocators = if with_alloc {
        Some(Allocators {
            region_tracker: RegionTracker::verif_empty(),
            region_allocators: alloc::vec::Vec::new(),
        })
    } else {
        None
    };
    let mem = literal_mem(h0.clone(), allocators);
    unsafe {
        CUR_MEM = &mem as *const TransactionalMemory;
        FAIL_AT = kani::any();
    }
    let prelatched: bool = kani::any();
    if prelatched {
        mem.storage.verif_latch_failure();
    }
    let needs_repair: bool = kani::any();
    if needs_repair {
        mem.mark_needs_repair();
    }
    let r = mem.close();
    let n = unsafe { EV_N };
    let fail_at = unsafe { FAIL_AT };
    assert!(unsafe { cf::B_CLOSE } == 1, "backend close() exactly once");
    assert!(unsafe { cf::B_AFTER_CLOSE } == 0);
    let may_clear = !prelatched && with_alloc && !needs_repair;
    if !may_clear {
        assert!(n == 0, "no storage event when the shutdown may not be recorded as clean");
        assert!(unsafe { EV_IMG_N } == 0, "recovery flag stays set on disk");
    } else if fail_at == 0 {
        assert!(n == 1 && unsafe { EV_IMG_N } == 0, "failed first flush: header not rewritten");
    } else {
        assert!(unsafe { EV_KIND[0] } == EV_F && unsafe { EV_KIND[1] } == EV_W);
        assert!(!ev_hdr(0).recovery_required, "the header written at clean shutdown has recovery_required clear");
        if fail_at > 2 {
            assert!(n == 3 && unsafe { EV_KIND[2] } == EV_F, "F W F");
            kani::cover!(r.is_ok(), "clean shutdown");
        }
    }
    core::mem::forget(r);
    core::mem::forget(mem);
}

// @harness props=C01 tier=quick timeout=1800 mem=16 stubbing=1 replay=scenario:commit_events
// @desc begin_writable() and clear_recovery_required(): each is exactly one header write followed by one flush; begin_writable's image has recovery_required set, clear_recovery_required's has it clear; neither changes slots, primary index or 2PC flag
// @functions TransactionalMemory::{begin_writable,clear_recovery_required}
// @bound header state symbolic
// @stubs TransactionalMemory::write_header, PagedCachedFile::flush -> log events; xxh3_checksum -> uninterpreted; alloc::fmt::format -> empty
#[kani::proof]
#[kani::unwind(22)]
#[kani::stub(TransactionalMemory::write_header, stub_write_header)]
#[kani::stub(PagedCachedFile::flush, stub_flush)]
#[kani::stub(crate::tree_store::page_store::page_manager::xxh3_checksum, hh::uf_checksum)]
#[kani::stub(alloc::fmt::format, hh::no_format)]
fn c01_recovery_flag_writes() {
    let p: usize = kani::any();
    kani::assume(p <= 1);
    let mut h0 = hh::any_two_valid_slots_header(p);
    let which: bool = kani::any();
    h0.recovery_required = which;
    let mem = literal_mem(h0.clone(), None);
    unsafe {
        CUR_MEM = &mem as *const TransactionalMemory;
    }
    let r = if which { mem.clear_recovery_required() } else { mem.begin_writable() };
    assert!(r.is_ok());
    assert!(unsafe { EV_N } == 2 && unsafe { EV_KIND[0] } == EV_W && unsafe { EV_KIND[1] } == EV_F);
    let mut want = h0.clone();
    want.recovery_required = !which;
    assert!(hh::header_fields_eq(ev_hdr(0), &want), "only the recovery flag changes");
    assert!(ev_hdr(0).recovery_required == !which);
    kani::cover!(which, "cleared");
    kani::cover!(!which, "set");
    core::mem::forget(r);
    core::mem::forget(mem);
}

// negative twin for the event harnesses
// @harness props=C01,C03,C08 tier=quick timeout=1800 mem=16 stubbing=1 expect=fail replay=scenario:commit_events
// @desc negative twin of c01_commit_events: claims a 2PC commit issues only one flush, must fail
// @functions TransactionalMemory::commit
// @bound as c01_commit_events
// @stubs as c01_commit_events
#[kani::proof]
#[kani::unwind(22)]
#[kani::stub(TransactionalMemory::write_header, stub_write_header)]
#[kani::stub(PagedCachedFile::flush, stub_flush)]
#[kani::stub(PagedCachedFile::resize, stub_resize)]
#[kani::stub(PagedCachedFile::sync_file, stub_sync_file)]
#[kani::stub(crate::tree_store::page_store::page_manager::xxh3_checksum, hh::uf_checksum)]
#[kani::stub(alloc::fmt::format, hh::no_format)]
fn c01_twin_commit_events_must_fail() {
    let h0 = hh::any_two_valid_slots_header(0);
    let old_id = h0.primary_slot().transaction_id;
    let mem = literal_mem(h0.clone(), None);
    unsafe {
        CUR_MEM = &mem as *const TransactionalMemory;
    }
    let id = TransactionId::new(kani::any());
    kani::assume(id > old_id);
    let r = mem.commit(None, None, id, true, ShrinkPolicy::Never);
    assert!(unsafe { EV_N } == 3);
    core::mem::forget(r);
    core::mem::forget(mem);
}


// ---- C11 / C14: mark_page_allocated (allocator rebuild faces page numbers read from a file) -----

use crate::tree_store::page_store::buddy_allocator::verif_kani as bh;

fn mark_case<const N: u32>() {
    // one region of N pages (trailing region of a 16-page geometry), arbitrary allocator state;
    // the region number is concrete (0) here - it indexes Vec<BuddyAllocator> - and arbitrary
    // non-zero in c11_mark_page_allocated_bad_region
    let mut h = hh::any_two_valid_slots_header(0);
    h.verif_set_counts(0, N);
    let w = bh::any_words();
    let a = bh::mk_alloc(N, 16, &w);
    let pre = bh::r_inv(&a, N, 16);
    kani::assume(pre.is_some());
    let pre = pre.unwrap();
    let allocators = Allocators {
        region_tracker: RegionTracker::verif_empty(),
        region_allocators: alloc::vec![a],
    };
    let mem = literal_mem(h, Some(allocators));
    let index: u32 = kani::any();
    kani::assume(index <= MAX_PAGE_INDEX);
    let order: u8 = kani::any();
    kani::assume(order <= 31);
    macro_rules! call {
        ($k:expr) => {
            mem.mark_page_allocated(PageNumber { region: 0, page_index: index, page_order: $k })
        };
    }
    let r = match order {
        0 => call!(0u8),
        1 => call!(1u8),
        2 => call!(2u8),
        3 => call!(3u8),
        4 => call!(4u8),
        5 => call!(5u8),
        21 => call!(21u8),
        _ => call!(31u8),
    };
    let o = match order { 0..=5 => order, 21 => 21, _ => 31 };
    let inside = o <= 4 && (u64::from(index) + 1) << o <= u64::from(N);
    match &r {
        Ok(()) => {
            assert!(inside, "an accepted page lies inside its region");
            let bm = bh::block_mask(index, o);
            assert!(pre & bm == bm, "an accepted page was entirely free (no overlap with a marked page)");
            let st = mem.state.lock().unwrap();
            let post = bh::r_inv(&st.allocators.as_ref().unwrap().region_allocators[0], N, 16);
            assert!(post == Some(pre & !bm), "exactly the page was marked allocated");
            kani::cover!(o >= 1, "multi-page block marked");
        }
        Err(_) => {
            if inside {
                let bm = bh::block_mask(index, o);
                assert!(pre & bm != bm, "a free in-range page is never refused");
            }
            kani::cover!(!inside, "out-of-range or oversized page number rejected as corruption");
            kani::cover!(inside, "overlapping page rejected as corruption");
        }
    }
    core::mem::forget(r);
    core::mem::forget(mem);
}

// @harness props=C11,C14 tier=quick timeout=900 mem=12 stubbing=1 flavor=nodebug replay=scenario:page_alter
// @desc mark_page_allocated with a page number whose region does not exist (any region >= 1 of a one-region database, any index and order): Err(Corrupted), no allocator is touched, nothing panics
// @functions TransactionalMemory::{mark_page_allocated,check_page_order}, DatabaseLayout::num_regions
// @bound one-region layout; region 1..2^20, index, order arbitrary; profile without debug assertions
// @stubs alloc::fmt::format -> empty
#[kani::proof]
#[kani::unwind(6)]
#[kani::stub(alloc::fmt::format, hh::no_format)]
fn c11_mark_page_allocated_bad_region() {
    let mut h = hh::any_two_valid_slots_header(0);
    h.verif_set_counts(0, 13);
    let allocators = Allocators {
        region_tracker: RegionTracker::verif_empty(),
        region_allocators: alloc::vec::Vec::new(),
    };
    let mem = literal_mem(h, Some(allocators));
    let region: u32 = kani::any();
    kani::assume(region >= 1 && region <= 0x000F_FFFF);
    let index: u32 = kani::any();
    kani::assume(index <= MAX_PAGE_INDEX);
    let order: u8 = kani::any();
    let r = mem.mark_page_allocated(PageNumber { region, page_index: index, page_order: order });
    assert!(r.is_err(), "a page in a region that does not exist is rejected");
    kani::cover!(order <= 20, "rejected because of the region");
    core::mem::forget(r);
    core::mem::forget(mem);
}

// @harness props=C11,C14 tier=quick timeout=1800 mem=16 stubbing=1 flavor=nodebug replay=scenario:page_alter
// @desc mark_page_allocated (the only gate the allocator rebuild puts in front of page numbers read from the file) with ANY region, index and order on an arbitrary valid allocator state: Ok only if the page lies inside region 0 and its order fits, it was entirely free, and then exactly that block is marked; every other page number - wrong region, order above the limit, extending past the region, overlapping an allocated page - returns Err(Corrupted) and nothing panics or indexes out of bounds
// @functions TransactionalMemory::{mark_page_allocated,check_page_order}, DatabaseHeader::layout, DatabaseLayout::{num_regions,region_layout}, BuddyAllocator::{record_alloc,record_alloc_inner}
// @bound one region of 13 (resp. 16) pages, capacity 16; allocator words, region, index (20 bits), order (0..=31, dispatched) arbitrary; profile without debug assertions
// @stubs alloc::fmt::format -> empty (error messages)
#[kani::proof]
#[kani::unwind(20)]
#[kani::stub(alloc::fmt::format, hh::no_format)]
fn c11_mark_page_allocated_n13() {
    mark_case::<13>();
}

// @harness props=C11,C14 tier=quick timeout=1800 mem=16 stubbing=1 flavor=nodebug replay=scenario:page_alter
// @desc as c11_mark_page_allocated_n13 for a full 16-page region
// @functions TransactionalMemory::mark_page_allocated, BuddyAllocator::record_alloc
// @bound one region of 16 pages
// @stubs alloc::fmt::format -> empty
#[kani::proof]
#[kani::unwind(20)]
#[kani::stub(alloc::fmt::format, hh::no_format)]
fn c11_mark_page_allocated_n16() {
    mark_case::<16>();
}


// ---- C14: the region tracker's allocation path --------------------------------------------------

use crate::tree_store::page_store::bitmap::verif_kani as bmh;

fn tracker_full(t: &RegionTracker, o: usize) -> bool {
    let b = &t.verif_trackers()[o];
    b.verif_word(b.verif_height() - 1, 0) & 1 != 0
}

/// invariant T for a one-region database: if the region has an aligned free run of order >= o,
/// tracker[o] does not mark it full (the tracker is optimistic, never pessimistic)
fn t_inv(t: &RegionTracker, free: u128, n: u32) -> bool {
    let mut ok = true;
    let mut o = 0u8;
    while o <= 4 {
        let mut has = false;
        let mut k = o;
        while k <= 4 {
            if bh::has_aligned_run(free, n, k) {
                has = true;
            }
            k += 1;
        }
        if has && tracker_full(t, o as usize) {
            ok = false;
        }
        o += 1;
    }
    ok
}

fn retry_case<const N: u32>() {
    let h = hh::any_two_valid_slots_header(0);
    let w = bh::any_words();
    let a = bh::mk_alloc(N, 16, &w);
    let pre = bh::r_inv(&a, N, 16);
    kani::assume(pre.is_some());
    let pre = pre.unwrap();
    // tracker: 5 orders x 1 region, arbitrary bits, with the real padded shape (capacity MAX_REGIONS)
    let tw: [u64; 5] = kani::any();
    let tracker = RegionTracker::verif_raw(alloc::vec![
        bmh::mk_padded(1, MAX_REGIONS_CAP, &[tw[0], u64::MAX, u64::MAX]),
        bmh::mk_padded(1, MAX_REGIONS_CAP, &[tw[1], u64::MAX, u64::MAX]),
        bmh::mk_padded(1, MAX_REGIONS_CAP, &[tw[2], u64::MAX, u64::MAX]),
        bmh::mk_padded(1, MAX_REGIONS_CAP, &[tw[3], u64::MAX, u64::MAX]),
        bmh::mk_padded(1, MAX_REGIONS_CAP, &[tw[4], u64::MAX, u64::MAX]),
    ]);
    kani::assume(t_inv(&tracker, pre, N));
    let mut state = InMemoryState {
        header: h,
        allocators: Some(Allocators {
            region_tracker: tracker,
            region_allocators: alloc::vec![a],
        }),
        read_from_secondary: false,
    };
    let order: u8 = kani::any();
    kani::assume(order <= 4);
    let r = match order {
        0 => TransactionalMemory::allocate_helper_retry(&mut state, 0, false),
        1 => TransactionalMemory::allocate_helper_retry(&mut state, 1, false),
        2 => TransactionalMemory::allocate_helper_retry(&mut state, 2, false),
        3 => TransactionalMemory::allocate_helper_retry(&mut state, 3, false),
        _ => TransactionalMemory::allocate_helper_retry(&mut state, 4, false),
    };
    let al = state.allocators.as_ref().unwrap();
    let post = bh::r_inv(&al.region_allocators[0], N, 16);
    assert!(post.is_some(), "R holds after the allocation attempt");
    let post = post.unwrap();
    match r {
        Ok(Some(p)) => {
            assert!(p.region == 0 && p.page_order == order);
            let bm = bh::block_mask(p.page_index, order);
            assert!(pre & bm == bm && post == pre & !bm, "handed out exactly one entirely free block");
            kani::cover!(true, "allocated");
        }
        Ok(None) => {
            assert!(!bh::has_aligned_run(pre, N, order), "refused only when the region has no aligned free block of that size");
            assert!(post == pre, "refusal leaves the allocator unchanged");
            kani::cover!(true, "refused: region really full at this order");
        }
        Err(_) => assert!(false),
    }
    assert!(t_inv(&al.region_tracker, post, N), "a region that still contains a suitable free block is never reported full");
    core::mem::forget(r);
    core::mem::forget(state);
}

const MAX_REGIONS_CAP: u32 = 0x0010_0000;

// @harness props=C14 tier=thorough timeout=3600 mem=40 stubbing=1 replay=scenario:page_alter attempt=1
// @desc (attempted: did not close in 2400 s / 17 GB in the quick tier) allocate_helper_retry (region selection through the region tracker) on a one-region database from ANY allocator state satisfying R and ANY tracker state satisfying T (optimistic: a region with a free block of order >= o is not marked full at o): a block is handed out iff the region has an aligned free block of that order; a refusal changes nothing; afterwards T still holds - a region that contains a suitable free block is never reported full
// @functions TransactionalMemory::allocate_helper_retry, RegionTracker::{find_free,mark_full}, BtreeBitmap::{find_first_unset,set,update_to_root}, BuddyAllocator::{alloc,alloc_inner}
// @bound one region of 13 (resp. 16) pages, capacity 16, 5 tracked orders (the real tracker has 21), tracker bitmaps with the real 4-level shape; allocator words, tracker bits and the order arbitrary; allocation policy Default (alloc); alloc_lowest is outside
// @stubs alloc::fmt::format -> empty
#[kani::proof]
#[kani::unwind(20)]
#[kani::stub(alloc::fmt::format, hh::no_format)]
fn c14_tracker_alloc_path_n13() {
    retry_case::<13>();
}

// @harness props=C14 tier=thorough timeout=3600 mem=32 stubbing=1 replay=scenario:page_alter attempt=1
// @desc as c14_tracker_alloc_path_n13 for a full 16-page region
// @functions TransactionalMemory::allocate_helper_retry, RegionTracker::{find_free,mark_full}
// @bound one region of 16 pages
// @stubs alloc::fmt::format -> empty
#[kani::proof]
#[kani::unwind(20)]
#[kani::stub(alloc::fmt::format, hh::no_format)]
fn c14_tracker_alloc_path_n16() {
    retry_case::<16>();
}

// ---- C14: allocate_helper_retry, the glue between the tracker and the allocators (native replay) ---
// The whole function on a symbolic allocator does not close (c14_tracker_alloc_path_*), and with
// two regions the candidate region becomes a symbolic Vec index (not closed in 1500 s).  Here the
// database has ONE region whose allocator is a CONCRETE valid state (chosen to include "no block
// of the requested order but a smaller one", "entirely free", "full", "mixed") while every tracker
// bit and the requested order stay symbolic: the solver ranges over all tracker states consistent
// with invariant T and all orders.  No stubs: a counterexample replays natively.

/// concrete region states (16 pages, capacity 16): returns the leaf words per order
fn conc_words(kind: u8) -> bh::Words {
    let mut w: bh::Words = [[u64::MAX; 2]; bh::MAXO];
    match kind {
        // only the order-1 block of pages 2-3 is free
        1 => w[1][0] = !(1u64 << 1),
        // entirely free: one order-4 block
        2 => w[4][0] = !1u64,
        // full
        3 => {}
        // page 0 (order 0), pages 4-7 (order 2), pages 8-15 (order 3)
        _ => {
            w[0][0] = !1u64;
            w[2][0] = !(1u64 << 1);
            w[3][0] = !(1u64 << 1);
        }
    }
    w
}

fn retry_glue_case<const K: u8>(lowest: bool) {
    let a = bh::mk_alloc(16, 16, &conc_words(K));
    let fa = bh::r_inv(&a, 16, 16);
    assert!(fa.is_some(), "the concrete pre-state satisfies R");
    let pre = fa.unwrap();
    let tw: [u64; 5] = kani::any();
    let tracker = RegionTracker::verif_raw(alloc::vec![
        bmh::mk_padded(1, MAX_REGIONS_CAP, &[tw[0], u64::MAX, u64::MAX]),
        bmh::mk_padded(1, MAX_REGIONS_CAP, &[tw[1], u64::MAX, u64::MAX]),
        bmh::mk_padded(1, MAX_REGIONS_CAP, &[tw[2], u64::MAX, u64::MAX]),
        bmh::mk_padded(1, MAX_REGIONS_CAP, &[tw[3], u64::MAX, u64::MAX]),
        bmh::mk_padded(1, MAX_REGIONS_CAP, &[tw[4], u64::MAX, u64::MAX]),
    ]);
    kani::assume(t_inv(&tracker, pre, 16));
    let mut state = InMemoryState {
        header: hh::concrete_header(),
        allocators: Some(Allocators {
            region_tracker: tracker,
            region_allocators: alloc::vec![a],
        }),
        read_from_secondary: false,
    };
    let order: u8 = kani::any();
    kani::assume(order <= 4);
    let r = match order {
        0 => TransactionalMemory::allocate_helper_retry(&mut state, 0, lowest),
        1 => TransactionalMemory::allocate_helper_retry(&mut state, 1, lowest),
        2 => TransactionalMemory::allocate_helper_retry(&mut state, 2, lowest),
        3 => TransactionalMemory::allocate_helper_retry(&mut state, 3, lowest),
        _ => TransactionalMemory::allocate_helper_retry(&mut state, 4, lowest),
    };
    let al = state.allocators.as_ref().unwrap();
    let pa = bh::r_inv(&al.region_allocators[0], 16, 16);
    assert!(pa.is_some(), "R holds afterwards");
    let post = pa.unwrap();
    match r {
        Ok(Some(p)) => {
            assert!(p.region == 0 && p.page_order == order);
            let bm = bh::block_mask(p.page_index, order);
            assert!(pre & bm == bm && post == pre & !bm, "handed out exactly one entirely free block");
            kani::cover!(true, "allocated");
        }
        Ok(None) => {
            assert!(!bh::has_aligned_run(pre, 16, order), "refused only when the region has no aligned free block of that size");
            assert!(post == pre, "refusal leaves the allocator unchanged");
            kani::cover!(pre != 0, "refused although smaller space is free");
        }
        Err(_) => assert!(false),
    }
    assert!(t_inv(&al.region_tracker, post, 16), "a region that still contains a suitable free block is never reported full");
    core::mem::forget(r);
    core::mem::forget(state);
}

macro_rules! retry_glue {
    ($name:ident, $k:literal, $lowest:literal) => {
        #[kani::proof]
        #[kani::unwind(20)]
        fn $name() {
            retry_glue_case::<$k>($lowest);
        }
    };
}

// @harness props=C14 tier=thorough timeout=3600 mem=32 replay=native optcover=smaller attempt=1
// @desc (attempted: out of memory at 16 GB / 1250 s - the retry loop is unrolled to the global unwind bound and the tracker bitmaps' heights stop being constants) the real allocate_helper_retry on a one-region database whose allocator is a concrete valid state (as named: small = only an order-1 block free, free = entirely free, full, mixed = blocks of orders 0, 2 and 3 free) with ANY tracker state consistent with invariant T and ANY requested order: a block is handed out iff the region has an aligned free block of that order and it was entirely free; a refusal changes nothing; afterwards T still holds - a region that still contains a suitable free block (of any order) is never reported full, in particular a region that refused order k is marked full from k upwards and not below
// @functions TransactionalMemory::allocate_helper_retry, InMemoryState::{get_region_mut,get_region_tracker_mut}, RegionTracker::{find_free,mark_full}, BuddyAllocator::{alloc,alloc_inner,alloc_lowest,highest_free_order}, BtreeBitmap::*
// @bound one 16-page region (capacity 16) in the named concrete state; 5 tracked orders (the real tracker has 21) with the real 4-level bitmap shape; all tracker bits (subject to T) and the order arbitrary; allocation policy alloc (and alloc_lowest where named)
// @assumes invariant T holds of the pre-state (the tracker never marks a region full at an order for which it has a free block)
retry_glue!(c14_retry_glue_small, 1, false);
retry_glue!(c14_retry_glue_free, 2, false);
retry_glue!(c14_retry_glue_full, 3, false);
retry_glue!(c14_retry_glue_mixed, 4, false);
retry_glue!(c14_retry_glue_small_lowest, 1, true);
retry_glue!(c14_retry_glue_mixed_lowest, 4, true);


// ---- C20: the open path reads only inside the current length --------------------------------------

/// the creation branch of TransactionalMemory::new (sizing a region tracker for a NEW database) must
/// be unreachable for a file that already has a length: asserted here, and the path is cut
fn stub_tracker_new_unreachable(_regions: u32, _orders: u8) -> RegionTracker {
    assert!(false, "the creation path is not entered for an existing file");
    kani::assume(false);
    RegionTracker::verif_empty()
}

// @harness props=C20 tier=thorough timeout=3600 mem=24 stubbing=1 flavor=nodebug replay=scenario:short_open attempt=1
// @desc (attempted in the quick tier: not closed in 1500 s on a loaded machine; the part below the header size is c20_open_file_shorter_than_header) TransactionalMemory::new (the real open path: length, magic number, header read, header parsing, recovery decision) on an EXISTING file of ANY length below one page whose first 320 bytes are ARBITRARY: every read it issues lies inside the current length of the storage, nothing is written when the open fails or is read-only, nothing panics; a file that is too short to hold a header is rejected without being read past its end
// @functions TransactionalMemory::new, PagedCachedFile::{raw_file_len,read_direct}, CheckedBackend::{len,read,check_failure}, UnrepairedDatabaseHeader::{from_bytes,recovery_required,finalize}, Drop for CheckedBackend
// @bound file length 1..=511 (page size 512), header bytes arbitrary (so the magic number matches or not), read_only arbitrary, allow_initialize false; longer files (the successful open) are outside this harness - c12_header_total_* covers their header parsing
// @stubs PagedCachedFile::new -> struct literal over the harness backend (stripe allocation skipped); RegionTracker::new -> assert unreachable (creation path) and cut; backend = harness backend serving the arbitrary image and returning UnexpectedEof for reads beyond the length; xxh3_checksum -> uninterpreted; alloc::fmt::format -> empty
#[kani::proof]
#[kani::unwind(22)]
#[kani::stub(PagedCachedFile::new, cf::stub_paged_cached_file_new)]
#[kani::stub(RegionTracker::new, stub_tracker_new_unreachable)]
#[kani::stub(crate::tree_store::page_store::page_manager::xxh3_checksum, hh::uf_checksum)]
#[kani::stub(alloc::fmt::format, hh::no_format)]
fn c20_open_short_file_reads_in_bounds() {
    open_short_case(511);
}

fn open_short_case(max_len: u64) {
    let len: u64 = kani::any();
    kani::assume(len >= 1 && len <= max_len);
    open_case_len(len);
}

fn open_case_len(len: u64) {
    unsafe {
        cf::B_LEN = len;
        cf::B_IMG = kani::any();
        cf::B_SERVE_IMG = true;
    }
    let read_only: bool = kani::any();
    let r = TransactionalMemory::new(alloc::boxed::Box::new(cf::HBackend), false, 512, None, 0, read_only);
    assert!(unsafe { cf::B_OOB } == 0, "every read lies inside the current length of the storage");
    if r.is_err() || read_only {
        assert!(unsafe { cf::B_WRITES } == 0, "a failed or read-only open never writes, resizes or syncs");
    }
    kani::cover!(r.is_err() && len >= 9, "magic-carrying short file rejected");
    kani::cover!(len < 9, "shorter than the magic number");
    core::mem::forget(r);
}

// @harness props=C20 tier=thorough timeout=3600 mem=32 stubbing=1 flavor=nodebug replay=scenario:short_open attempt=1
// @desc (attempted: 1200 s timeout with a symbolic length - the creation branch and the infeasible continuation after the out-of-bounds read are explored; out of memory at 16-20 GB with the length case-split) TransactionalMemory::new (the real open path) on an EXISTING file that is SHORTER THAN THE 320-BYTE HEADER, with arbitrary contents (so the magic number matches or not): every read it issues lies inside the current length of the storage - in particular a file that carries the magic number is rejected without its header being read past the end of the storage - nothing is written, resized or synced, and nothing panics
// @functions TransactionalMemory::new, PagedCachedFile::{raw_file_len,read_direct}, CheckedBackend::{len,read,check_failure}, Drop for CheckedBackend
// @bound file length in {1, 8, 9, 10, 128, 319} (case split: a symbolic length does not close), all bytes arbitrary, read_only arbitrary, allow_initialize false, page size 512
// @stubs PagedCachedFile::new -> struct literal over the harness backend (stripe allocation skipped); RegionTracker::new -> assert unreachable (creation path) and cut; backend = harness backend serving the arbitrary image and returning UnexpectedEof for reads beyond the length; xxh3_checksum -> uninterpreted; alloc::fmt::format -> empty
#[kani::proof]
#[kani::unwind(22)]
#[kani::stub(PagedCachedFile::new, cf::stub_paged_cached_file_new)]
#[kani::stub(RegionTracker::new, stub_tracker_new_unreachable)]
#[kani::stub(crate::tree_store::page_store::page_manager::xxh3_checksum, hh::uf_checksum)]
#[kani::stub(alloc::fmt::format, hh::no_format)]
fn c20_open_file_shorter_than_header() {
    // the length is dispatched to concrete values: with a symbolic length CBMC cannot prune the
    // (infeasible) continuation after the out-of-bounds read and runs out of memory in from_bytes
    let sel: u8 = kani::any();
    match sel {
        0 => open_case_len(1),
        1 => open_case_len(8),
        2 => open_case_len(9),
        3 => open_case_len(10),
        4 => open_case_len(128),
        _ => open_case_len(319),
    }
}
