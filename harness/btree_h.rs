// Mounted under src/tree_store/btree_base.rs as `mod verif_kani` (cfg(kani)).
// C04 / C10 / C12: every single-page operation (build, read, search, insert, remove, replace,
// route) against a list model and an independent decoder written from docs/design.md, for all
// byte contents over a table of concrete shapes (DESIGN.md 3.7: lengths and positions are
// case-split because they become memcpy sizes; contents stay symbolic).
#![allow(dead_code, unused_imports, unused_comparisons, static_mut_refs, clippy::all, clippy::pedantic)]

use super::*;
use crate::tree_store::PageNumber;
use crate::tree_store::page_store::Page;
use core::cmp::Ordering;

pub(crate) const PG: usize = 64; // page size used by the harnesses (CBMC keeps arrays of <= 64 cells field-sensitive)
const KMAX: usize = 3; // maximal key / value length in the shape table

pub(crate) struct HPage {
    pub(crate) mem: [u8; PG],
    pub(crate) order: u8,
}

impl Page for HPage {
    fn memory(&self) -> &[u8] {
        &self.mem
    }
    fn get_page_number(&self) -> PageNumber {
        PageNumber::new(0, 0, self.order)
    }
}

pub(crate) fn no_format(_args: core::fmt::Arguments<'_>) -> alloc::string::String {
    alloc::string::String::new()
}

pub(crate) fn not_panicking() -> bool {
    false
}

// records the slice the checksum function was given
static mut CK_LEN: usize = usize::MAX;
static mut CK_CALLS: u32 = 0;
pub(crate) fn ck_record(data: &[u8]) -> Checksum {
    unsafe {
        CK_LEN = data.len();
        CK_CALLS += 1;
    }
    kani::any()
}

fn u32_at(p: &[u8], off: usize) -> usize {
    u32::from_le_bytes([p[off], p[off + 1], p[off + 2], p[off + 3]]) as usize
}

// ---- independent leaf decoder, from docs/design.md "Leaf page" --------------------------------
// type(1) | reserved(1) | num_entries(2) | [key_end u32 x n] | [value_end u32 x n] | keys | values
// key_end / value_end arrays are present only for variable-width keys / values; no alignment
// padding (all built-in types have alignment 1).

pub(crate) struct Dec {
    pub(crate) n: usize,
    pub(crate) key: [(usize, usize); 8],
    pub(crate) val: [(usize, usize); 8],
    pub(crate) total: usize,
    pub(crate) ok: bool,
}

pub(crate) fn decode_leaf(p: &[u8], fk: Option<usize>, fv: Option<usize>) -> Dec {
    let mut d = Dec { n: 0, key: [(0, 0); 8], val: [(0, 0); 8], total: 0, ok: false };
    if p[0] != 1 {
        return d;
    }
    let n = u16::from_le_bytes([p[2], p[3]]) as usize;
    if n == 0 || n > 8 {
        return d;
    }
    d.n = n;
    let mut off = 4;
    let kptr = off;
    if fk.is_none() {
        off += 4 * n;
    }
    let vptr = off;
    if fv.is_none() {
        off += 4 * n;
    }
    let mut start = off;
    let mut i = 0;
    while i < 8 {
        if i < n {
            let end = match fk {
                Some(w) => off + w * (i + 1),
                None => u32_at(p, kptr + 4 * i),
            };
            if end < start || end > p.len() {
                return d;
            }
            d.key[i] = (start, end);
            start = end;
        }
        i += 1;
    }
    let vbase = start;
    i = 0;
    while i < 8 {
        if i < n {
            let end = match fv {
                Some(w) => vbase + w * (i + 1),
                None => u32_at(p, vptr + 4 * i),
            };
            if end < start || end > p.len() {
                return d;
            }
            d.val[i] = (start, end);
            start = end;
        }
        i += 1;
    }
    d.total = start;
    d.ok = true;
    d
}

fn seq_eq(p: &[u8], r: (usize, usize), want: &[u8]) -> bool {
    if r.1 - r.0 != want.len() {
        return false;
    }
    let mut i = 0;
    let mut eq = true;
    while i < KMAX + 1 {
        if i < want.len() && p[r.0 + i] != want[i] {
            eq = false;
        }
        i += 1;
    }
    eq
}

/// A leaf shape: number of pairs, key lengths, value lengths, fixed widths.
#[derive(Clone, Copy)]
pub(crate) struct Shape {
    pub(crate) n: usize,
    pub(crate) kl: [usize; 4],
    pub(crate) vl: [usize; 4],
    pub(crate) fk: Option<usize>,
    pub(crate) fv: Option<usize>,
}

// FLAT on purpose: Kani 0.68 mis-models a prefix slice of a row of a nested array
// (`&a[i][..k]` reads the wrong row; measured, see DESIGN.md section 2), so the four cells live
// in one array and are sliced at top level.
pub(crate) type Cells = [u8; KMAX * 4];

pub(crate) fn cell(c: &Cells, i: usize, len: usize) -> &[u8] {
    &c[KMAX * i..KMAX * i + len]
}

fn set_cell(c: &mut Cells, i: usize, v: &[u8; KMAX]) {
    let mut j = 0;
    while j < KMAX {
        c[KMAX * i + j] = v[j];
        j += 1;
    }
}

fn copy_cell(dst: &mut Cells, di: usize, src: &Cells, si: usize) {
    let mut j = 0;
    while j < KMAX {
        dst[KMAX * di + j] = src[KMAX * si + j];
        j += 1;
    }
}

/// Build a leaf of the given shape with the real RawLeafBuilder into `page`.
pub(crate) fn build_leaf(page: &mut [u8; PG], s: &Shape, keys: &Cells, vals: &Cells) -> usize {
    let mut kbytes = 0;
    let mut vbytes = 0;
    let mut i = 0;
    while i < 4 {
        if i < s.n {
            kbytes += s.kl[i];
            vbytes += s.vl[i];
        }
        i += 1;
    }
    let need = RawLeafBuilder::required_bytes(s.n, kbytes + vbytes, s.fk, s.fv);
    assert!(need <= PG);
    {
        let mut b = RawLeafBuilder::new(&mut page[..], s.n, s.fk, s.fv, kbytes);
        i = 0;
        while i < 4 {
            if i < s.n {
                b.append(cell(keys, i, s.kl[i]), cell(vals, i, s.vl[i]));
            }
            i += 1;
        }
    }
    need
}

fn check_leaf_against(page: &[u8; PG], s: &Shape, keys: &Cells, vals: &Cells, expect_total: usize) {
    // independent decoder
    let d = decode_leaf(page, s.fk, s.fv);
    assert!(d.ok, "page decodes following the documented format");
    assert!(d.n == s.n, "stored entry count equals the entries present");
    assert!(d.total == expect_total, "data ends exactly at required_bytes");
    // real accessor
    let a = LeafAccessor::new(page, s.fk, s.fv);
    assert!(a.num_pairs() == s.n);
    assert!(a.total_length() == expect_total);
    let mut i = 0;
    while i < 4 {
        if i < s.n {
            assert!(seq_eq(page, d.key[i], cell(keys, i, s.kl[i])), "decoded key i equals the input");
            assert!(seq_eq(page, d.val[i], cell(vals, i, s.vl[i])), "decoded value i equals the input");
            let (kr, vr) = a.entry_ranges(i).unwrap();
            assert!(kr.start == d.key[i].0 && kr.end == d.key[i].1, "accessor key range equals the decoder's");
            assert!(vr.start == d.val[i].0 && vr.end == d.val[i].1, "accessor value range equals the decoder's");
            let e = a.entry(i).unwrap();
            assert!(e.key().len() == s.kl[i] && e.value().len() == s.vl[i]);
        } else {
            assert!(a.entry(i).is_none());
        }
        i += 1;
    }
}

fn any_cells() -> Cells {
    kani::any()
}

// ---- leaf_build / leaf_read ---------------------------------------------------------------------

fn leaf_build_case(s: Shape) {
    let keys = any_cells();
    let vals = any_cells();
    let mut page: [u8; PG] = kani::any();
    let need = build_leaf(&mut page, &s, &keys, &vals);
    check_leaf_against(&page, &s, &keys, &vals, need);
    // checksum coverage: leaf_checksum hashes exactly page[0 .. total_length)
    let hp = HPage { mem: page, order: 0 };
    let r = leaf_checksum(&hp, s.fk, s.fv);
    assert!(r.is_ok());
    assert!(unsafe { CK_LEN } == need, "leaf checksum covers exactly [0, total_length)");
    unsafe {
        CK_LEN = usize::MAX;
    }
    core::mem::forget(r);
}

const VV: Shape = Shape { n: 3, kl: [2, 0, 3, 0], vl: [1, 3, 0, 0], fk: None, fv: None };
const FV_: Shape = Shape { n: 3, kl: [2, 2, 2, 0], vl: [0, 3, 1, 0], fk: Some(2), fv: None };
const VF: Shape = Shape { n: 3, kl: [1, 3, 0, 0], vl: [2, 2, 2, 0], fk: None, fv: Some(2) };
const FF: Shape = Shape { n: 3, kl: [3, 3, 3, 0], vl: [1, 1, 1, 0], fk: Some(3), fv: Some(1) };
const F0: Shape = Shape { n: 3, kl: [1, 2, 3, 0], vl: [0, 0, 0, 0], fk: None, fv: Some(0) };
const ONE: Shape = Shape { n: 1, kl: [3, 0, 0, 0], vl: [2, 0, 0, 0], fk: None, fv: None };

macro_rules! leaf_build_harness {
    ($name:ident, $shape:expr) => {
        #[kani::proof]
        #[kani::unwind(28)]
        #[kani::stub(xxh3_checksum, ck_record)]
        #[kani::stub(crate::panicking, not_panicking)]
        #[kani::stub(alloc::fmt::format, no_format)]
        fn $name() {
            leaf_build_case($shape);
            kani::cover!(true, "shape built and decoded");
        }
    };
}

// @harness props=C04,C10,C12 tier=quick timeout=1200 mem=12 stubbing=1 replay=scenario:page_alter
// @desc RawLeafBuilder emits a page that an independent decoder (written from docs/design.md) reads back to exactly the input pairs, in order: type byte 1, entry count, end-offset arrays only for variable widths, offsets non-decreasing and inside the page, keys then values, total length == required_bytes; LeafAccessor::{num_pairs,entry,entry_ranges,total_length} agree with the decoder; leaf_checksum hashes exactly page[0..total_length)
// @functions RawLeafBuilder::{new,append,required_bytes,drop}, LeafAccessor::{new,num_pairs,entry,entry_ranges,total_length,key_start,key_end,value_start,value_end}, leaf_checksum
// @bound 64-byte page; one shape per harness: 3 pairs with (variable,variable), (fixed 2,variable), (variable,fixed 2), (fixed 3,fixed 1), (variable, fixed 0 = inline multimap set) or a single pair; key/value lengths 0..=3 as listed in the shape constants; all key and value bytes and the prior page contents arbitrary
// @stubs xxh3_checksum -> records the slice length it was given; crate::panicking -> false; alloc::fmt::format -> empty
leaf_build_harness!(c10_leaf_build_vv, VV);
leaf_build_harness!(c10_leaf_build_fv, FV_);
leaf_build_harness!(c10_leaf_build_vf, VF);
leaf_build_harness!(c10_leaf_build_ff, FF);
leaf_build_harness!(c10_leaf_build_f0, F0);
leaf_build_harness!(c10_leaf_build_one, ONE);

// ---- leaf_position ------------------------------------------------------------------------------

fn lex(a: &[u8], b: &[u8]) -> Ordering {
    let mut i = 0usize;
    while i < a.len() && i < b.len() {
        if a[i] < b[i] {
            return Ordering::Less;
        }
        if a[i] > b[i] {
            return Ordering::Greater;
        }
        i += 1;
    }
    a.len().cmp(&b.len())
}

fn position_case(s: Shape) {
    let keys = any_cells();
    let vals = any_cells();
    // strictly increasing keys (the leaf invariant)
    let mut i = 0;
    while i + 1 < 4 {
        if i + 1 < s.n {
            kani::assume(lex(cell(&keys, i, s.kl[i]), cell(&keys, i + 1, s.kl[i + 1])) == Ordering::Less);
        }
        i += 1;
    }
    let mut page = [0u8; PG];
    build_leaf(&mut page, &s, &keys, &vals);
    let qb: [u8; KMAX] = kani::any();
    let ql: usize = kani::any();
    kani::assume(ql <= KMAX);
    let q = &qb[..ql];
    let a = LeafAccessor::new(&page, s.fk, s.fv);
    let (pos, found) = a.position::<&[u8]>(q);
    // model: linear scan
    let mut mpos = s.n;
    let mut mfound = false;
    i = 4;
    while i > 0 {
        i -= 1;
        if i < s.n {
            let c = lex(q, cell(&keys, i, s.kl[i]));
            if c == Ordering::Equal {
                mpos = i;
                mfound = true;
            } else if c == Ordering::Less {
                mpos = i;
                mfound = false;
            }
        }
    }
    assert!(pos == mpos && found == mfound, "binary search equals the linear-scan model");
    assert!(a.find_key::<&[u8]>(q) == if mfound { Some(mpos) } else { None });
    kani::cover!(found && pos == 1, "found in the middle");
    kani::cover!(!found && pos == s.n, "past the end");
}

macro_rules! position_harness {
    ($name:ident, $shape:expr) => {
        #[kani::proof]
        #[kani::unwind(28)]
        #[kani::stub(crate::panicking, not_panicking)]
        #[kani::stub(alloc::fmt::format, no_format)]
        fn $name() {
            position_case($shape);
        }
    };
}

// @harness props=C04 tier=quick timeout=1200 mem=8 stubbing=1 replay=native
// @desc LeafAccessor::position / find_key over a leaf of strictly increasing arbitrary keys and an arbitrary query equal the linear-scan model (first index whose key is >= query, found iff equal)
// @functions LeafAccessor::{position,find_key,key_unchecked}, <&[u8] as Key>::compare
// @bound 3 pairs, key lengths (2,3,3) variable width or fixed width 2; query 0..=3 bytes; all bytes arbitrary
// @stubs crate::panicking -> false; alloc::fmt::format -> empty
position_harness!(c04_leaf_position_f, Shape { n: 3, kl: [2, 2, 2, 0], vl: [1, 1, 1, 0], fk: Some(2), fv: Some(1) });

// variable-width keys: 620 s, thorough tier
// @harness props=C04 tier=thorough timeout=1200 mem=8 stubbing=1 replay=native
// @desc LeafAccessor::position / find_key over a leaf of strictly increasing arbitrary keys and an arbitrary query equal the linear-scan model (first index whose key is >= query, found iff equal)
// @functions LeafAccessor::{position,find_key,key_unchecked}, <&[u8] as Key>::compare
// @bound 3 pairs, key lengths (2,3,3) variable width or fixed width 2; query 0..=3 bytes; all bytes arbitrary
// @stubs crate::panicking -> false; alloc::fmt::format -> empty
position_harness!(c04_leaf_position_v, Shape { n: 3, kl: [2, 3, 3, 0], vl: [1, 0, 2, 0], fk: None, fv: None });

// ---- leaf_insert / remove / replace against a list model ----------------------------------------

fn insert_case(s: Shape, at: usize, nkl: usize, nvl: usize) {
    let keys = any_cells();
    let vals = any_cells();
    let nk: [u8; KMAX] = kani::any();
    let nv: [u8; KMAX] = kani::any();
    let mut page: [u8; PG] = kani::any();
    let old_total = build_leaf(&mut page, &s, &keys, &vals);
    {
        let hp = HPage { mem: page, order: 0 };
        let fits = LeafMutator::sufficient_insert_inplace_space(&hp, at, s.fk, s.fv, &nk[..nkl], &nv[..nvl]);
        assert!(fits, "96-byte page has room in every shape of the table");
    }
    {
        let mut m = LeafMutator::new(&mut page[..], s.fk, s.fv);
        m.insert(at, &nk[..nkl], &nv[..nvl]);
    }
    // model: the list with the pair inserted at `at`
    let mut ms = Shape { n: s.n + 1, kl: [0; 4], vl: [0; 4], fk: s.fk, fv: s.fv };
    let mut mk: Cells = [0; KMAX * 4];
    let mut mv: Cells = [0; KMAX * 4];
    let mut i = 0;
    while i < 4 {
        if i < s.n + 1 {
            if i < at {
                ms.kl[i] = s.kl[i];
                ms.vl[i] = s.vl[i];
                copy_cell(&mut mk, i, &keys, i);
                copy_cell(&mut mv, i, &vals, i);
            } else if i == at {
                ms.kl[i] = nkl;
                ms.vl[i] = nvl;
                set_cell(&mut mk, i, &nk);
                set_cell(&mut mv, i, &nv);
            } else {
                ms.kl[i] = s.kl[i - 1];
                ms.vl[i] = s.vl[i - 1];
                copy_cell(&mut mk, i, &keys, i - 1);
                copy_cell(&mut mv, i, &vals, i - 1);
            }
        }
        i += 1;
    }
    let mut delta = nkl + nvl;
    if s.fk.is_none() {
        delta += 4;
    }
    if s.fv.is_none() {
        delta += 4;
    }
    check_leaf_against(&page, &ms, &mk, &mv, old_total + delta);
}

fn remove_case(s: Shape, at: usize) {
    let keys = any_cells();
    let vals = any_cells();
    let mut page: [u8; PG] = kani::any();
    let old_total = build_leaf(&mut page, &s, &keys, &vals);
    {
        let mut m = LeafMutator::new(&mut page[..], s.fk, s.fv);
        m.remove(at);
    }
    let mut ms = Shape { n: s.n - 1, kl: [0; 4], vl: [0; 4], fk: s.fk, fv: s.fv };
    let mut mk: Cells = [0; KMAX * 4];
    let mut mv: Cells = [0; KMAX * 4];
    let mut i = 0;
    while i < 4 {
        if i < s.n - 1 {
            let j = if i < at { i } else { i + 1 };
            ms.kl[i] = s.kl[j];
            ms.vl[i] = s.vl[j];
            copy_cell(&mut mk, i, &keys, j);
            copy_cell(&mut mv, i, &vals, j);
        }
        i += 1;
    }
    let mut delta = s.kl[at] + s.vl[at];
    if s.fk.is_none() {
        delta += 4;
    }
    if s.fv.is_none() {
        delta += 4;
    }
    check_leaf_against(&page, &ms, &mk, &mv, old_total - delta);
}

/// remove_indices(&[..]) (the in-place multi-entry removal behind retain/extract): `mask` bit i
/// set = pair i is removed
fn remove_indices_case(s: Shape, mask: u8) {
    let keys = any_cells();
    let vals = any_cells();
    let mut page: [u8; PG] = kani::any();
    let old_total = build_leaf(&mut page, &s, &keys, &vals);
    {
        let mut m = LeafMutator::new(&mut page[..], s.fk, s.fv);
        match mask {
            0b001 => m.remove_indices(&[0]),
            0b010 => m.remove_indices(&[1]),
            0b100 => m.remove_indices(&[2]),
            0b011 => m.remove_indices(&[0, 1]),
            0b101 => m.remove_indices(&[0, 2]),
            _ => m.remove_indices(&[1, 2]),
        }
    }
    let mut ms = Shape { n: 0, kl: [0; 4], vl: [0; 4], fk: s.fk, fv: s.fv };
    let mut mk: Cells = [0; KMAX * 4];
    let mut mv: Cells = [0; KMAX * 4];
    let mut removed_bytes = 0;
    let mut j = 0;
    while j < 4 {
        if j < s.n {
            if mask & (1 << j) == 0 {
                ms.kl[ms.n] = s.kl[j];
                ms.vl[ms.n] = s.vl[j];
                copy_cell(&mut mk, ms.n, &keys, j);
                copy_cell(&mut mv, ms.n, &vals, j);
                ms.n += 1;
            } else {
                removed_bytes += s.kl[j] + s.vl[j];
                if s.fk.is_none() {
                    removed_bytes += 4;
                }
                if s.fv.is_none() {
                    removed_bytes += 4;
                }
            }
        }
        j += 1;
    }
    check_leaf_against(&page, &ms, &mk, &mv, old_total - removed_bytes);
}

fn replace_case(s: Shape, at: usize, nvl: usize) {
    let keys = any_cells();
    let vals = any_cells();
    let nv: [u8; KMAX] = kani::any();
    let mut page: [u8; PG] = kani::any();
    let old_total = build_leaf(&mut page, &s, &keys, &vals);
    {
        let hp = HPage { mem: page, order: 0 };
        assert!(LeafMutator::sufficient_replace_inplace_space(&hp, at, s.fk, s.fv, &nv[..nvl]));
    }
    {
        let mut m = LeafMutator::new(&mut page[..], s.fk, s.fv);
        m.replace(at, &nv[..nvl]);
    }
    let mut ms = s;
    let mut mv = vals;
    ms.vl[at] = nvl;
    set_cell(&mut mv, at, &nv);
    check_leaf_against(&page, &ms, &keys, &mv, old_total - s.vl[at] + nvl);
}

macro_rules! leaf_op_harness {
    ($name:ident, $body:expr) => {
        #[kani::proof]
        #[kani::unwind(28)]
        #[kani::stub(crate::panicking, not_panicking)]
        #[kani::stub(alloc::fmt::format, no_format)]
        fn $name() {
            $body;
            kani::cover!(true, "completed");
        }
    };
}

const VV2: Shape = Shape { n: 2, kl: [2, 3, 0, 0], vl: [3, 1, 0, 0], fk: None, fv: None };
const FV2: Shape = Shape { n: 2, kl: [2, 2, 0, 0], vl: [0, 3, 0, 0], fk: Some(2), fv: None };
const VF2: Shape = Shape { n: 2, kl: [3, 1, 0, 0], vl: [2, 2, 0, 0], fk: None, fv: Some(2) };
const FF2: Shape = Shape { n: 2, kl: [3, 3, 0, 0], vl: [1, 1, 0, 0], fk: Some(3), fv: Some(1) };
const F02: Shape = Shape { n: 2, kl: [1, 3, 0, 0], vl: [0, 0, 0, 0], fk: None, fv: Some(0) };

// @harness props=C04,C10 tier=quick timeout=1200 mem=8 stubbing=1 replay=native
// @desc LeafMutator::insert at a given position of a 2-pair leaf equals the list model (pair inserted at that index, all others unchanged and in order) and the page stays well-formed for the independent decoder; sufficient_insert_inplace_space says yes and the insert stays inside the page
// @functions LeafMutator::{new,insert,update_key_end,update_value_end,sufficient_insert_inplace_space}, LeafAccessor::*
// @bound 64-byte page; pre-state shape as named (vv = variable key/variable value, fv = fixed 2-byte key, vf = fixed 2-byte value, ff = fixed both, f0 = zero-width values); position 0, 1 or 2 as named; inserted key/value lengths fixed per harness; all bytes arbitrary
// @stubs crate::panicking -> false; alloc::fmt::format -> empty
leaf_op_harness!(c04_leaf_insert_vv_at0, { insert_case(VV2, 0, 1, 2); });
leaf_op_harness!(c04_leaf_insert_vv_at2, { insert_case(VV2, 2, 0, 3); });
leaf_op_harness!(c04_leaf_insert_fv_at0, { insert_case(FV2, 0, 2, 2); });
leaf_op_harness!(c04_leaf_insert_fv_at2, { insert_case(FV2, 2, 2, 3); });
leaf_op_harness!(c04_leaf_insert_vf_at0, { insert_case(VF2, 0, 1, 2); });
leaf_op_harness!(c04_leaf_insert_vf_at2, { insert_case(VF2, 2, 0, 2); });
leaf_op_harness!(c04_leaf_insert_ff_at0, { insert_case(FF2, 0, 3, 1); });
leaf_op_harness!(c04_leaf_insert_ff_at2, { insert_case(FF2, 2, 3, 1); });
leaf_op_harness!(c04_leaf_insert_f0_at0, { insert_case(F02, 0, 2, 0); });
leaf_op_harness!(c04_leaf_insert_f0_at2, { insert_case(F02, 2, 3, 0); });

// @harness props=C04,C10 tier=quick timeout=1200 mem=8 stubbing=1 replay=native
// @desc LeafMutator::remove of the pair at the given position of a 3-pair leaf equals the list model and keeps the page well-formed
// @functions LeafMutator::{new,remove,update_key_end,update_value_end}, LeafAccessor::*
// @bound 64-byte page; shapes VV, FV_, VF, FF, F0 (3 pairs); position as named; all bytes arbitrary
// @stubs crate::panicking -> false; alloc::fmt::format -> empty
leaf_op_harness!(c04_leaf_remove_vv_at0, { remove_case(VV, 0); });
leaf_op_harness!(c04_leaf_remove_vv_at2, { remove_case(VV, 2); });
leaf_op_harness!(c04_leaf_remove_fv_at0, { remove_case(FV_, 0); });
leaf_op_harness!(c04_leaf_remove_fv_at2, { remove_case(FV_, 2); });
leaf_op_harness!(c04_leaf_remove_vf_at0, { remove_case(VF, 0); });
leaf_op_harness!(c04_leaf_remove_vf_at2, { remove_case(VF, 2); });
leaf_op_harness!(c04_leaf_remove_ff_at0, { remove_case(FF, 0); });
leaf_op_harness!(c04_leaf_remove_ff_at2, { remove_case(FF, 2); });
leaf_op_harness!(c04_leaf_remove_f0_at0, { remove_case(F0, 0); });
leaf_op_harness!(c04_leaf_remove_f0_at2, { remove_case(F0, 2); });

// the middle positions run in the thorough tier (the quick command has to fit in 900 s)
// @harness props=C04,C10 tier=thorough timeout=1200 mem=8 stubbing=1 replay=native
// @desc LeafMutator::insert at a given position of a 2-pair leaf equals the list model (pair inserted at that index, all others unchanged and in order) and the page stays well-formed for the independent decoder; sufficient_insert_inplace_space says yes and the insert stays inside the page
// @functions LeafMutator::{new,insert,update_key_end,update_value_end,sufficient_insert_inplace_space}, LeafAccessor::*
// @bound 64-byte page; pre-state shape as named (vv = variable key/variable value, fv = fixed 2-byte key, vf = fixed 2-byte value, ff = fixed both, f0 = zero-width values); position 0, 1 or 2 as named; inserted key/value lengths fixed per harness; all bytes arbitrary
// @stubs crate::panicking -> false; alloc::fmt::format -> empty
leaf_op_harness!(c04_leaf_insert_vv_at1, { insert_case(VV2, 1, 3, 0); });
leaf_op_harness!(c04_leaf_insert_fv_at1, { insert_case(FV2, 1, 2, 0); });
leaf_op_harness!(c04_leaf_insert_vf_at1, { insert_case(VF2, 1, 3, 2); });
leaf_op_harness!(c04_leaf_insert_ff_at1, { insert_case(FF2, 1, 3, 1); });
leaf_op_harness!(c04_leaf_insert_f0_at1, { insert_case(F02, 1, 2, 0); });

// @harness props=C04,C10 tier=thorough timeout=1200 mem=8 stubbing=1 replay=native
// @desc LeafMutator::remove of the pair at the given position of a 3-pair leaf equals the list model and keeps the page well-formed
// @functions LeafMutator::{new,remove,update_key_end,update_value_end}, LeafAccessor::*
// @bound 64-byte page; shapes VV, FV_, VF, FF, F0 (3 pairs); position as named; all bytes arbitrary
// @stubs crate::panicking -> false; alloc::fmt::format -> empty
leaf_op_harness!(c04_leaf_remove_vv_at1, { remove_case(VV, 1); });
leaf_op_harness!(c04_leaf_remove_fv_at1, { remove_case(FV_, 1); });
leaf_op_harness!(c04_leaf_remove_vf_at1, { remove_case(VF, 1); });
leaf_op_harness!(c04_leaf_remove_ff_at1, { remove_case(FF, 1); });
leaf_op_harness!(c04_leaf_remove_f0_at1, { remove_case(F0, 1); });

// @harness props=C04,C10 tier=quick timeout=1200 mem=8 stubbing=1 replay=native
// @desc LeafMutator::replace of a value by a shorter, equal-length or longer one equals the list model (only that value changes) and keeps the page well-formed; sufficient_replace_inplace_space says yes
// @functions LeafMutator::{new,replace,update_value_end,sufficient_replace_inplace_space}, LeafAccessor::*
// @bound 64-byte page; shapes VV and FV_ (3 pairs); position and new value length as named; all bytes arbitrary
// @stubs crate::panicking -> false; alloc::fmt::format -> empty
leaf_op_harness!(c04_leaf_replace_vv_at0_len3, { replace_case(VV, 0, 3); });
leaf_op_harness!(c04_leaf_replace_vv_at1_len0, { replace_case(VV, 1, 0); });
leaf_op_harness!(c04_leaf_replace_vv_at2_len2, { replace_case(VV, 2, 2); });
leaf_op_harness!(c04_leaf_replace_fv_at0_len2, { replace_case(FV_, 0, 2); });
leaf_op_harness!(c04_leaf_replace_fv_at1_len3, { replace_case(FV_, 1, 3); });
leaf_op_harness!(c04_leaf_replace_fv_at2_len0, { replace_case(FV_, 2, 0); });

// @harness props=C04,C10 tier=quick timeout=1500 mem=12 stubbing=1 replay=native
// @desc LeafMutator::remove_indices (in-place removal of several pairs, used by retain / extract_if) of the named index set from a 3-pair leaf equals the list model - the surviving pairs keep their keys AND values, in order - and the page stays well-formed for the independent decoder (offsets, count, total length)
// @functions LeafMutator::{new,remove_indices,remove_index_ranges,update_removed_indices,compact_before_hole,compact_tail,update_key_end,update_value_end}, LeafAccessor::*
// @bound 64-byte page; shapes VV (variable key/value), FV_ (fixed 2-byte key), VF (fixed 2-byte value) with 3 pairs and key lengths different from value lengths; index sets {0},{1},{0,1},{0,2},{1,2} as named; all bytes arbitrary
// @stubs crate::panicking -> false; alloc::fmt::format -> empty
leaf_op_harness!(c04_leaf_remove_indices_vv_0, { remove_indices_case(VV, 0b001); });
leaf_op_harness!(c04_leaf_remove_indices_vv_02, { remove_indices_case(VV, 0b101); });
leaf_op_harness!(c04_leaf_remove_indices_fv_0, { remove_indices_case(FV_, 0b001); });
leaf_op_harness!(c04_leaf_remove_indices_vf_1, { remove_indices_case(VF, 0b010); });

// further index sets run in the thorough tier (the quick command has to fit in 900 s)
// @harness props=C04,C10 tier=thorough timeout=1500 mem=12 stubbing=1 replay=native
// @desc LeafMutator::remove_indices (in-place removal of several pairs, used by retain / extract_if) of the named index set from a 3-pair leaf equals the list model - the surviving pairs keep their keys AND values, in order - and the page stays well-formed for the independent decoder (offsets, count, total length)
// @functions LeafMutator::{new,remove_indices,remove_index_ranges,update_removed_indices,compact_before_hole,compact_tail,update_key_end,update_value_end}, LeafAccessor::*
// @bound 64-byte page; shapes VV (variable key/value), FV_ (fixed 2-byte key), VF (fixed 2-byte value) with 3 pairs and key lengths different from value lengths; index sets {0},{1},{0,1},{0,2},{1,2} as named; all bytes arbitrary
// @stubs crate::panicking -> false; alloc::fmt::format -> empty
leaf_op_harness!(c04_leaf_remove_indices_vv_1, { remove_indices_case(VV, 0b010); });
leaf_op_harness!(c04_leaf_remove_indices_vv_01, { remove_indices_case(VV, 0b011); });
leaf_op_harness!(c04_leaf_remove_indices_vv_12, { remove_indices_case(VV, 0b110); });
leaf_op_harness!(c04_leaf_remove_indices_fv_02, { remove_indices_case(FV_, 0b101); });
leaf_op_harness!(c04_leaf_remove_indices_vf_01, { remove_indices_case(VF, 0b011); });

// ---- branch pages -------------------------------------------------------------------------------
// docs/design.md "Branch page": type(1)=2 | pad(1) | num_keys(2) | pad(4) | checksums 16 x (n+1)
// | page numbers 8 x (n+1) | [key_end u32 x n] | keys

fn build_branch(page: &mut [u8; PG], fk: Option<usize>, kl: usize, key: &[u8; KMAX], sums: &[u128; 2], pns: &[u64; 2]) -> usize {
    let need = RawBranchBuilder::required_bytes(1, kl, fk);
    assert!(need <= PG);
    let mut b = RawBranchBuilder::new(&mut page[..], 1, fk);
    b.write_first_page(PageNumber::from_le_bytes(pns[0].to_le_bytes()), sums[0]);
    b.write_nth_key(&key[..kl], PageNumber::from_le_bytes(pns[1].to_le_bytes()), sums[1], 0);
    need
}

/// build + independent decoding (docs/design.md "Branch page") + accessor + checksum coverage
fn branch_build_case(fk: Option<usize>, kl: usize) {
    let key: [u8; KMAX] = kani::any();
    let sums: [u128; 2] = kani::any();
    let pns: [u64; 2] = kani::any();
    let mut page: [u8; PG] = kani::any();
    let need = build_branch(&mut page, fk, kl, &key, &sums, &pns);
    let child = |i: usize| PageNumber::from_le_bytes(pns[i].to_le_bytes());
    assert!(page[0] == 2, "type byte");
    assert!(u16::from_le_bytes([page[2], page[3]]) == 1, "num_keys");
    let mut i = 0;
    while i < 2 {
        let mut c = [0u8; 16];
        c.copy_from_slice(&page[8 + 16 * i..8 + 16 * i + 16]);
        assert!(u128::from_le_bytes(c) == sums[i], "child checksum array at offset 8");
        let mut pn = [0u8; 8];
        pn.copy_from_slice(&page[8 + 32 + 8 * i..8 + 32 + 8 * i + 8]);
        assert!(pn == child(i).to_le_bytes(), "page number array follows the checksums");
        i += 1;
    }
    let mut off = 8 + 32 + 16;
    let e0 = match fk {
        Some(w) => off + w,
        None => {
            let e0 = u32_at(&page, off);
            off += 4;
            e0
        }
    };
    assert!(e0 == off + kl && e0 == need, "key end offset and total length");
    assert!(seq_eq(&page, (off, e0), &key[..kl]));
    let hp = HPage { mem: page, order: 0 };
    let a = BranchAccessor::new(&hp, fk);
    assert!(a.count_children() == 2 && a.total_length() == need);
    i = 0;
    while i < 2 {
        assert!(a.child_checksum(i) == Some(sums[i]));
        let cp = a.child_page(i).unwrap();
        assert!(cp.to_le_bytes() == child(i).to_le_bytes());
        i += 1;
    }
    assert!(a.child_page(2).is_none() && a.child_checksum(2).is_none() && a.key(1).is_none());
    assert!(a.key(0).unwrap().len() == kl);
    let r = branch_checksum(&hp, fk);
    assert!(r.is_ok() && unsafe { CK_LEN } == need, "branch checksum covers exactly [0, total_length)");
    core::mem::forget(r);
    kani::cover!(true, "branch built and decoded");
}

/// routing: first separator >= query; equality goes left
fn branch_route_case(fk: Option<usize>, kl: usize) {
    let key: [u8; KMAX] = kani::any();
    let sums: [u128; 2] = [1, 2];
    let pns: [u64; 2] = [PageNumber::new(0, 1, 0).to_le_bytes(), PageNumber::new(0, 2, 0).to_le_bytes()].map(u64::from_le_bytes);
    let mut page = [0u8; PG];
    build_branch(&mut page, fk, kl, &key, &sums, &pns);
    let hp = HPage { mem: page, order: 0 };
    let a = BranchAccessor::new(&hp, fk);
    let qb: [u8; KMAX] = kani::any();
    let ql: usize = kani::any();
    kani::assume(ql <= KMAX);
    let q = &qb[..ql];
    let (idx, pn) = a.child_for_key::<&[u8]>(q);
    let want = if lex(q, &key[..kl]) != Ordering::Greater { 0 } else { 1 };
    assert!(idx == want, "routes to the first child whose separator is >= the query");
    assert!(pn.page_index == (want as u32) + 1, "returns that child's page");
    kani::cover!(idx == 1, "routed right");
    kani::cover!(idx == 0 && lex(q, &key[..kl]) == Ordering::Equal, "equality goes left");
}

/// BranchMutator::write_child_page rewrites exactly the j-th checksum and page number
fn branch_write_child_case(j: usize) {
    let page: [u8; PG] = {
        let mut p: [u8; PG] = kani::any();
        p[0] = BRANCH;
        p[2] = 1;
        p[3] = 0;
        p
    };
    let mut page2 = page;
    let npn = PageNumber::from_le_bytes(kani::any::<u64>().to_le_bytes());
    let nck: u128 = kani::any();
    {
        let mut m = BranchMutator::new(&mut page2[..]);
        m.write_child_page(j, npn, nck);
    }
    let mut b = 0;
    while b < PG {
        let in_ck = b >= 8 + 16 * j && b < 8 + 16 * j + 16;
        let in_pn = b >= 40 + 8 * j && b < 40 + 8 * j + 8;
        if !in_ck && !in_pn {
            assert!(page2[b] == page[b], "write_child_page touches nothing else");
        }
        b += 1;
    }
    let hp2 = HPage { mem: page2, order: 0 };
    let a2 = BranchAccessor::new(&hp2, None);
    assert!(a2.child_checksum(j) == Some(nck));
    assert!(a2.child_page(j).unwrap().to_le_bytes() == npn.to_le_bytes());
    kani::cover!(true, "child rewritten");
}

macro_rules! branch_harness {
    ($name:ident, $body:expr) => {
        #[kani::proof]
        #[kani::unwind(66)]
        #[kani::stub(xxh3_checksum, ck_record)]
        #[kani::stub(crate::panicking, not_panicking)]
        #[kani::stub(alloc::fmt::format, no_format)]
        fn $name() {
            $body;
        }
    };
}

// @harness props=C10,C12 tier=quick timeout=1500 mem=16 stubbing=1 replay=scenario:page_alter
// @desc RawBranchBuilder emits the documented branch layout (type 2, key count, checksum array at 8, page-number array, optional key-end array, keys; total length == required_bytes); BranchAccessor reads it back; branch_checksum hashes exactly [0,total_length)
// @functions RawBranchBuilder::{new,write_first_page,write_nth_key,required_bytes,drop}, BranchAccessor::{new,key,child_page,child_checksum,count_children,total_length}, branch_checksum
// @bound 64-byte page, 1 key / 2 children; key length 3 or 0 (variable width) or 2 (fixed width); child page numbers, checksums, key bytes, prior page contents arbitrary
// @stubs xxh3_checksum -> records the slice length; crate::panicking -> false; alloc::fmt::format -> empty
branch_harness!(c10_branch_build_v3, branch_build_case(None, 3));
branch_harness!(c10_branch_build_v0, branch_build_case(None, 0));
branch_harness!(c10_branch_build_f2, branch_build_case(Some(2), 2));

// @harness props=C04 tier=quick timeout=1600 mem=20 rss=12 stubbing=1 replay=native
// @desc BranchAccessor::child_for_key routes an arbitrary query to the first child whose separator is >= the query (a query equal to the separator goes left) and returns that child's page number
// @functions BranchAccessor::{child_for_key,key,child_page}, <&[u8] as Key>::compare
// @bound 1 key / 2 children; fixed-width separator of 2 bytes, query 0..=3 bytes, all bytes arbitrary
// @stubs xxh3_checksum -> unused; crate::panicking -> false; alloc::fmt::format -> empty
branch_harness!(c04_branch_route_f2, branch_route_case(Some(2), 2));

// @harness props=C04 tier=thorough timeout=3600 mem=32 stubbing=1 replay=native attempt=1
// @desc as c04_branch_route_f2 for variable-width separators of 3 and 0 bytes (attempted: did not close in 1500 s in the quick tier)
// @functions BranchAccessor::{child_for_key,key,key_end,child_page}, <&[u8] as Key>::compare
// @bound 1 key / 2 children; variable-width separator of 3 or 0 bytes, query 0..=3 bytes, all bytes arbitrary
// @stubs crate::panicking -> false; alloc::fmt::format -> empty
branch_harness!(c04_branch_route_v3, branch_route_case(None, 3));
branch_harness!(c04_branch_route_v0, branch_route_case(None, 0));

// @harness props=C10 tier=quick timeout=1500 mem=16 stubbing=1 replay=native
// @desc BranchMutator::write_child_page(j) (the page-level step of checksum finalisation) rewrites exactly the j-th child checksum and page number of an arbitrary branch page and nothing else
// @functions BranchMutator::{new,write_child_page,num_keys}, BranchAccessor::{child_checksum,child_page}
// @bound 64-byte branch page with one key and arbitrary contents; j = 0 or 1; new page number and checksum arbitrary
// @stubs crate::panicking -> false; alloc::fmt::format -> empty
branch_harness!(c10_branch_write_child_0, branch_write_child_case(0));
branch_harness!(c10_branch_write_child_1, branch_write_child_case(1));

// ---- checksum functions are total on arbitrary pages ----------------------------------------------

// @harness props=C12,C10 tier=quick timeout=1500 mem=16 stubbing=1 replay=scenario:page_alter
// @desc leaf_checksum and branch_checksum on an ARBITRARY page (any count, any offsets) never panic: they return Err for a zero count or an end offset beyond the page, and otherwise hash a prefix [0,end) with end <= page length; an alteration outside the hashed prefix leaves every accessor result unchanged (so top-down verification covers everything that is read)
// @functions leaf_checksum, branch_checksum, LeafAccessor::{new,num_pairs,value_end,key_end}, BranchAccessor::{new,key_end}
// @bound 96-byte page with arbitrary contents (type byte set to the page kind); fixed/variable width combinations (None,None), (Some 2,None), (None,Some 2), (Some 2,Some 2)
// @stubs xxh3_checksum -> records the slice length; alloc::fmt::format -> empty
#[kani::proof]
#[kani::unwind(28)]
#[kani::stub(xxh3_checksum, ck_record)]
#[kani::stub(alloc::fmt::format, no_format)]
fn c12_checksum_total() {
    let mut page: [u8; PG] = kani::any();
    let kind: bool = kani::any();
    let fk = if kani::any() { Some(2usize) } else { None };
    let fv = if kani::any() { Some(2usize) } else { None };
    if kind {
        page[0] = LEAF;
        let hp = HPage { mem: page, order: 0 };
        let r = leaf_checksum(&hp, fk, fv);
        if r.is_ok() {
            assert!(unsafe { CK_CALLS } == 1 && unsafe { CK_LEN } <= PG);
            kani::cover!(unsafe { CK_LEN } < PG, "leaf prefix hashed");
        } else {
            assert!(unsafe { CK_CALLS } == 0);
            kani::cover!(true, "corrupt leaf rejected");
        }
        core::mem::forget(r);
    } else {
        page[0] = BRANCH;
        let hp = HPage { mem: page, order: 0 };
        let r = branch_checksum(&hp, fk);
        if r.is_ok() {
            assert!(unsafe { CK_CALLS } == 1 && unsafe { CK_LEN } <= PG);
            kani::cover!(unsafe { CK_LEN } < PG, "branch prefix hashed");
        } else {
            assert!(unsafe { CK_CALLS } == 0);
            kani::cover!(true, "corrupt branch rejected");
        }
        core::mem::forget(r);
    }
}

// negative twin
// @harness props=C04,C10 tier=quick timeout=900 mem=12 stubbing=1 expect=fail replay=native
// @desc negative twin of the leaf harnesses: claims an inserted pair lands one slot later than it does, must fail
// @functions LeafMutator::insert
// @bound as c04_leaf_insert_vv
// @stubs crate::panicking -> false; alloc::fmt::format -> empty
#[kani::proof]
#[kani::unwind(28)]
#[kani::stub(crate::panicking, not_panicking)]
#[kani::stub(alloc::fmt::format, no_format)]
fn c04_twin_leaf_insert_must_fail() {
    let keys = any_cells();
    let vals = any_cells();
    let mut page: [u8; PG] = kani::any();
    build_leaf(&mut page, &VV2, &keys, &vals);
    let nk: [u8; KMAX] = kani::any();
    {
        let mut m = LeafMutator::new(&mut page[..], None, None);
        m.insert(0, &nk[..1], &nk[..1]);
    }
    let a = LeafAccessor::new(&page, None, None);
    assert!(a.entry(1).unwrap().key().len() == 1);
}
