// Mounted under src/tree_store/page_store/header.rs as `mod verif_kani` (cfg(kani)).
// C12 (slot selection table, checksum coverage of the commit slot, no laundering of torn
// slots, totality of header parsing), C01 (crash/recovery of one commit step on the header),
// C10 (slot / header codecs).
#![allow(dead_code, unused_imports, unused_comparisons, static_mut_refs, clippy::all, clippy::pedantic)]

use super::*;
use crate::tree_store::PageNumber;
use crate::tree_store::btree_base::{BtreeHeader, Checksum};

// ---- checksum as an uninterpreted, injective function (DESIGN.md 3.4) ----------------------
// Table of (input, output) pairs seen so far. A repeated input returns the recorded output;
// a new input gets a fresh value assumed different from every recorded output. Inputs are the
// 112 checksummed bytes of a commit slot, compared as seven u128 words.

const UF_SLOTS: usize = 8;
static mut UF_N: usize = 0;
// flat (no nested arrays: see the note on Kani and nested-array rows in DESIGN.md section 2)
static mut UF_IN: [u128; 7 * UF_SLOTS] = [0; 7 * UF_SLOTS];
static mut UF_OUT: [u128; UF_SLOTS] = [0; UF_SLOTS];

fn words112(data: &[u8]) -> [u128; 7] {
    let mut w = [0u128; 7];
    let mut i = 0usize;
    while i < 7 {
        let mut b = [0u8; 16];
        b.copy_from_slice(&data[i * 16..i * 16 + 16]);
        w[i] = u128::from_le_bytes(b);
        i += 1;
    }
    w
}

fn uf_row_eq(k: usize, b: &[u128; 7]) -> bool {
    // explicit word compare ([u128;7] == is a 112-iteration memcmp loop)
    unsafe {
        UF_IN[7 * k] == b[0]
            && UF_IN[7 * k + 1] == b[1]
            && UF_IN[7 * k + 2] == b[2]
            && UF_IN[7 * k + 3] == b[3]
            && UF_IN[7 * k + 4] == b[4]
            && UF_IN[7 * k + 5] == b[5]
            && UF_IN[7 * k + 6] == b[6]
    }
}

pub(in crate::tree_store::page_store) fn uf_checksum(data: &[u8]) -> Checksum {
    assert!(data.len() == SLOT_CHECKSUM_OFFSET, "slot checksum covers exactly bytes [0,112)");
    let w = words112(data);
    unsafe {
        let mut k = 0usize;
        while k < UF_SLOTS {
            if k < UF_N && uf_row_eq(k, &w) {
                return UF_OUT[k];
            }
            k += 1;
        }
        let out: u128 = kani::any();
        k = 0;
        while k < UF_SLOTS {
            if k < UF_N {
                kani::assume(out != UF_OUT[k]);
            }
            k += 1;
        }
        assert!(UF_N < UF_SLOTS, "checksum table too small for this harness");
        let mut j = 0usize;
        while j < 7 {
            UF_IN[7 * UF_N + j] = w[j];
            j += 1;
        }
        UF_OUT[UF_N] = out;
        UF_N += 1;
        out
    }
}

/// true iff `data[..112]` was already given to the checksum function (i.e. some party really
/// computed a checksum over exactly these bytes)
fn uf_known(data: &[u8]) -> bool {
    let w = words112(data);
    let mut known = false;
    unsafe {
        let mut k = 0usize;
        while k < UF_SLOTS {
            if k < UF_N && uf_row_eq(k, &w) {
                known = true;
            }
            k += 1;
        }
    }
    known
}

pub(crate) fn no_format(_args: core::fmt::Arguments<'_>) -> alloc::string::String {
    alloc::string::String::new()
}

// ---- symbolic values ------------------------------------------------------------------------

fn any_page_number() -> PageNumber {
    let order: u8 = kani::any();
    kani::assume(order <= 20);
    let index: u32 = kani::any();
    kani::assume(index <= (0x000F_FFFFu32 >> order));
    let region: u32 = kani::any();
    kani::assume(region <= 0x000F_FFFF);
    PageNumber::new(region, index, order)
}

pub(in crate::tree_store::page_store) fn any_root() -> Option<BtreeHeader> {
    if kani::any() {
        Some(BtreeHeader::new(any_page_number(), kani::any(), kani::any()))
    } else {
        None
    }
}

pub(in crate::tree_store::page_store) fn root_eq(a: &Option<BtreeHeader>, b: &Option<BtreeHeader>) -> bool {
    match (a, b) {
        (None, None) => true,
        (Some(x), Some(y)) => {
            x.root.region == y.root.region
                && x.root.page_index == y.root.page_index
                && x.root.page_order == y.root.page_order
                && x.checksum == y.checksum
                && x.length == y.length
        }
        _ => false,
    }
}

fn any_valid_slot() -> TransactionHeader {
    TransactionHeader {
        version: FILE_FORMAT_VERSION3,
        user_root: any_root(),
        system_root: any_root(),
        transaction_id: TransactionId::new(kani::any()),
        corrupt_bytes: None,
    }
}

fn slot_same(a: &TransactionHeader, b: &TransactionHeader) -> bool {
    a.version == b.version
        && root_eq(&a.user_root, &b.user_root)
        && root_eq(&a.system_root, &b.system_root)
        && a.transaction_id == b.transaction_id
}

fn bytes128_eq(a: &[u8], b: &[u8]) -> bool {
    let mut i = 0usize;
    let mut eq = true;
    while i < 8 {
        let mut x = [0u8; 16];
        let mut y = [0u8; 16];
        x.copy_from_slice(&a[i * 16..i * 16 + 16]);
        y.copy_from_slice(&b[i * 16..i * 16 + 16]);
        if u128::from_le_bytes(x) != u128::from_le_bytes(y) {
            eq = false;
        }
        i += 1;
    }
    eq
}

/// header with two valid slots, arbitrary flags, geometry 512/0/16, one full region
pub(in crate::tree_store::page_store) fn any_two_valid_slots_header(p: usize) -> DatabaseHeader {
    DatabaseHeader {
        primary_slot: p,
        recovery_required: true,
        two_phase_commit: kani::any(),
        page_size: 512,
        region_header_pages: 0,
        region_max_data_pages: 16,
        full_regions: 1,
        trailing_partial_region_pages: 0,
        transaction_slots: [any_valid_slot(), any_valid_slot()],
    }
}

/// a concrete two-region header (for harnesses in which the header plays no role)
pub(in crate::tree_store::page_store) fn concrete_header() -> DatabaseHeader {
    DatabaseHeader {
        primary_slot: 0,
        recovery_required: true,
        two_phase_commit: false,
        page_size: 512,
        region_header_pages: 0,
        region_max_data_pages: 16,
        full_regions: 2,
        trailing_partial_region_pages: 0,
        transaction_slots: [TransactionHeader::new(TransactionId::new(1)), TransactionHeader::new(TransactionId::new(1))],
    }
}

/// field-by-field equality of two headers (both without corrupt slots); by c10_header_codec the
/// byte image is a function of exactly these fields
pub(in crate::tree_store::page_store) fn header_fields_eq(a: &DatabaseHeader, b: &DatabaseHeader) -> bool {
    a.primary_slot == b.primary_slot
        && a.recovery_required == b.recovery_required
        && a.two_phase_commit == b.two_phase_commit
        && a.page_size == b.page_size
        && a.region_header_pages == b.region_header_pages
        && a.region_max_data_pages == b.region_max_data_pages
        && a.full_regions == b.full_regions
        && a.trailing_partial_region_pages == b.trailing_partial_region_pages
        && slot_same(&a.transaction_slots[0], &b.transaction_slots[0])
        && slot_same(&a.transaction_slots[1], &b.transaction_slots[1])
        && a.transaction_slots[0].corrupt_bytes.is_none() == b.transaction_slots[0].corrupt_bytes.is_none()
        && a.transaction_slots[1].corrupt_bytes.is_none() == b.transaction_slots[1].corrupt_bytes.is_none()
}

impl DatabaseHeader {
    pub(in crate::tree_store::page_store) fn verif_primary_index(&self) -> usize {
        self.primary_slot
    }
    pub(in crate::tree_store::page_store) fn verif_set_primary_index(&mut self, p: usize) {
        self.primary_slot = p;
    }
    pub(in crate::tree_store::page_store) fn verif_set_counts(&mut self, full: u32, trailing: u32) {
        self.full_regions = full;
        self.trailing_partial_region_pages = trailing;
    }
}

// ---- C12: select_primary_slot equals the documented table --------------------------------

// @harness props=C12,C01 tier=quick timeout=600 mem=8 stubbing=1 replay=native
// @desc select_primary_slot over all (2PC flag, primary corrupt, secondary corrupt, id order, primary index) equals the table of docs/design.md: under 2PC the primary, or an error if it is corrupt; a corrupt primary yields the secondary, or an error if both are corrupt; a valid strictly newer secondary wins; otherwise the primary. Returned flag == "kept the primary".
// @functions UnrepairedDatabaseHeader::select_primary_slot, DatabaseHeader::{swap_primary_slot,primary_slot,secondary_slot}
// @bound none: flags, both transaction ids and the primary index are arbitrary
// @stubs alloc::fmt::format -> empty string (error messages)
#[kani::proof]
#[kani::unwind(12)]
#[kani::stub(alloc::fmt::format, no_format)]
fn c12_select_slot_table() {
    let p: usize = kani::any();
    kani::assume(p <= 1);
    let two_phase: bool = kani::any();
    let pc: bool = kani::any();
    let sc: bool = kani::any();
    let s0 = any_valid_slot();
    let s1 = any_valid_slot();
    let id = [s0.transaction_id, s1.transaction_id];
    let mut h = UnrepairedDatabaseHeader {
        inner: DatabaseHeader {
            primary_slot: p,
            recovery_required: kani::any(),
            two_phase_commit: two_phase,
            page_size: 512,
            region_header_pages: 0,
            region_max_data_pages: 16,
            full_regions: 1,
            trailing_partial_region_pages: 0,
            transaction_slots: [s0, s1],
        },
        primary_corrupted: pc,
        secondary_corrupted: sc,
    };
    let r = h.select_primary_slot();
    // the table, written down from the "1PC+C" and "2PC" paragraphs of docs/design.md
    let expect: Option<usize> = if two_phase {
        if pc { None } else { Some(p) }
    } else if pc {
        if sc { None } else { Some(p ^ 1) }
    } else if !sc && id[p ^ 1] > id[p] {
        Some(p ^ 1)
    } else {
        Some(p)
    };
    match r {
        Ok(kept) => {
            assert!(expect == Some(h.inner.primary_slot), "selected slot equals the documented table");
            assert!(kept == (h.inner.primary_slot == p), "flag says whether the primary was kept");
            kani::cover!(!kept && !pc, "fell back to a newer secondary");
            kani::cover!(!kept && pc, "fell back because the primary is corrupt");
        }
        Err(_) => {
            assert!(expect.is_none(), "error only when the table says so");
            assert!(h.inner.primary_slot == p);
            kani::cover!(two_phase, "2PC with corrupt primary is an error");
        }
    }
    core::mem::forget(r);
}

// ---- C12/C10: slot codec, checksum coverage, no laundering -----------------------------------

// @harness props=C12,C10 tier=quick timeout=600 mem=8 stubbing=1 replay=scenario:slot_alter
// @desc TransactionHeader: from_bytes(to_bytes(s)) == s and is not corrupted; field offsets are those of docs/design.md (version 0, flags 1-2, user root 8, system root 40, id 104, checksum 112); any alteration of one byte in [0,112) (version byte kept valid) or of the stored checksum makes from_bytes report corrupted; a corrupted slot is written back verbatim (never re-serialised with a fresh checksum) until write_secondary_slot replaces it
// @functions TransactionHeader::{to_bytes,from_bytes}, BtreeHeader::{to_le_bytes,from_le_bytes}, PageNumber::{to_le_bytes,from_le_bytes}, DatabaseHeader::write_secondary_slot
// @bound none: every field of the slot, the altered position and the new byte value are arbitrary
// @stubs xxh3_checksum -> injective uninterpreted function (table-based); alloc::fmt::format -> empty string
// @assumes checksum is injective on the inputs seen in this run (DESIGN.md 3.4)
#[kani::proof]
#[kani::unwind(12)]
#[kani::stub(crate::tree_store::page_store::page_manager::xxh3_checksum, uf_checksum)]
#[kani::stub(alloc::fmt::format, no_format)]
fn c12_slot_cover() {
    let s = any_valid_slot();
    let b = s.to_bytes();
    // documented field offsets
    assert!(b[0] == FILE_FORMAT_VERSION3);
    assert!((b[1] != 0) == s.user_root.is_some() && (b[2] != 0) == s.system_root.is_some());
    let mut idb = [0u8; 8];
    idb.copy_from_slice(&b[104..112]);
    assert!(u64::from_le_bytes(idb) == s.transaction_id.raw_id());
    if let Some(r) = s.user_root {
        let mut x = [0u8; 8];
        x.copy_from_slice(&b[8..16]);
        assert!(x == r.root.to_le_bytes());
        let mut c = [0u8; 16];
        c.copy_from_slice(&b[16..32]);
        assert!(u128::from_le_bytes(c) == r.checksum);
        let mut l = [0u8; 8];
        l.copy_from_slice(&b[32..40]);
        assert!(u64::from_le_bytes(l) == r.length);
    }
    if let Some(r) = s.system_root {
        let mut x = [0u8; 8];
        x.copy_from_slice(&b[40..48]);
        assert!(x == r.root.to_le_bytes());
    }
    let (back, corrupted) = match TransactionHeader::from_bytes(&b) {
        Ok(x) => x,
        Err(_) => {
            assert!(false, "a slot written by to_bytes parses");
            return;
        }
    };
    assert!(!corrupted, "round trip verifies");
    assert!(slot_same(&back, &s), "round trip preserves every field");
    // alter one byte
    let i: usize = kani::any();
    kani::assume(i < TRANSACTION_SIZE);
    let v: u8 = kani::any();
    kani::assume(v != b[i]);
    kani::assume(i != 0 || v == FILE_FORMAT_VERSION3);
    let mut t = b;
    t[i] = v;
    match TransactionHeader::from_bytes(&t) {
        Ok((torn, c2)) => {
            assert!(c2, "any altered byte of the slot (data or checksum) is detected");
            // no laundering: written back verbatim
            let again = torn.to_bytes();
            assert!(bytes128_eq(&again, &t), "a corrupt slot is re-serialised verbatim");
            // ... until a new commit overwrites it
            let mut h = DatabaseHeader {
                primary_slot: 0,
                recovery_required: true,
                two_phase_commit: false,
                page_size: 512,
                region_header_pages: 0,
                region_max_data_pages: 16,
                full_regions: 1,
                trailing_partial_region_pages: 0,
                transaction_slots: [s.clone(), torn],
            };
            let nid = TransactionId::new(kani::any());
            h.write_secondary_slot(nid, None, None);
            let fresh = h.transaction_slots[1].to_bytes();
            match TransactionHeader::from_bytes(&fresh) {
                Ok((f, c3)) => {
                    assert!(!c3 && f.transaction_id == nid && f.user_root.is_none());
                }
                Err(_) => assert!(false),
            }
            kani::cover!(i >= SLOT_CHECKSUM_OFFSET, "altered the stored checksum");
            kani::cover!(i < SLOT_CHECKSUM_OFFSET, "altered a checksummed byte");
        }
        Err(_) => assert!(false, "version byte is valid, parse cannot fail"),
    }
}

// ---- C12/C20: header parsing is total ------------------------------------------------------------

fn header_total_case(page_size: u32, hdr_pages: u32, max_pages: u32) {
    let mut data: [u8; DB_HEADER_SIZE] = kani::any();
    // geometry concretised (division by constants); everything else arbitrary
    data[PAGE_SIZE_OFFSET..PAGE_SIZE_OFFSET + 4].copy_from_slice(&page_size.to_le_bytes());
    data[REGION_HEADER_PAGES_OFFSET..REGION_HEADER_PAGES_OFFSET + 4].copy_from_slice(&hdr_pages.to_le_bytes());
    data[REGION_MAX_DATA_PAGES_OFFSET..REGION_MAX_DATA_PAGES_OFFSET + 4].copy_from_slice(&max_pages.to_le_bytes());
    let file_len: u64 = kani::any();
    let r = UnrepairedDatabaseHeader::from_bytes(&data, page_size);
    match r {
        Ok(u) => {
            let stored_recovery = u.inner.recovery_required;
            let needs = u.recovery_required(file_len);
            let p0 = u.inner.primary_slot;
            let pc = u.primary_corrupted;
            match u.finalize(file_len) {
                Ok((h, clean)) => {
                    let layout = h.layout();
                    assert!(layout.len() == file_len, "accepted layout spans exactly the file");
                    assert!(layout.num_regions() >= 1 && layout.num_regions() <= MAX_REGIONS);
                    if clean {
                        assert!(h.primary_slot == p0 && !pc, "clean only if the primary was kept");
                        assert!(needs == stored_recovery, "clean implies the stored layout matched the file");
                    }
                    kani::cover!(clean && !stored_recovery, "clean open");
                    kani::cover!(!clean && stored_recovery, "recovered");
                    kani::cover!(h.primary_slot != p0, "switched slots");
                }
                Err(_) => {
                    kani::cover!(true, "finalize rejected");
                }
            }
        }
        Err(e) => {
            kani::cover!(true, "from_bytes rejected");
            core::mem::forget(e);
        }
    }
}

// @harness props=C12,C20 tier=quick timeout=1500 mem=16 stubbing=1 replay=scenario:header_fuzz
// @desc UnrepairedDatabaseHeader::from_bytes + recovery_required + finalize on an arbitrary 320-byte header and arbitrary file length never panic or overflow; an accepted header's layout spans exactly the file (so every page address it yields is inside the file), has 1..=MAX_REGIONS regions, and `clean` is reported only when the primary slot was kept, verified, and the stored counts matched the file
// @functions UnrepairedDatabaseHeader::{from_bytes,recovery_required,finalize,layout_from_file_len,select_primary_slot}, TransactionHeader::from_bytes, DatabaseLayout::{recalculate,len,num_regions,region_base_address,region_layout}, DatabaseHeader::{layout,set_layout}
// @bound geometry fixed to page size 512, 0 region header pages, 16 data pages per region (division by constants); god byte, counts, both slots and the file length arbitrary
// @stubs xxh3_checksum -> injective uninterpreted function; alloc::fmt::format -> empty string
#[kani::proof]
#[kani::unwind(12)]
#[kani::stub(crate::tree_store::page_store::page_manager::xxh3_checksum, uf_checksum)]
#[kani::stub(alloc::fmt::format, no_format)]
fn c12_header_total_g512() {
    header_total_case(512, 0, 16);
}

// @harness props=C12,C20 tier=thorough timeout=3000 mem=16 stubbing=1 replay=scenario:header_fuzz attempt=1
// @desc as c12_header_total_g512 with a region header page and a non-power-of-two region size
// @functions UnrepairedDatabaseHeader::{from_bytes,recovery_required,finalize,layout_from_file_len}
// @bound geometry fixed to page size 4096, 1 region header page, 1000 data pages per region
// @stubs xxh3_checksum -> injective uninterpreted function; alloc::fmt::format -> empty string
#[kani::proof]
#[kani::unwind(12)]
#[kani::stub(crate::tree_store::page_store::page_manager::xxh3_checksum, uf_checksum)]
#[kani::stub(alloc::fmt::format, no_format)]
fn c12_header_total_g4096() {
    header_total_case(4096, 1, 1000);
}

// ---- C10: whole-header codec ---------------------------------------------------------------------

// @harness props=C10,C12 tier=quick timeout=900 mem=12 stubbing=1 replay=scenario:header_layout
// @desc DatabaseHeader::to_bytes emits the documented layout (magic 0..9, god byte 9 with bits primary=1, recovery=2, 2PC=4, page size 12, region header pages 16, region max data pages 20, full regions 24, trailing pages 28, slot 0 at 64, slot 1 at 192) and from_bytes reads every field back; both slots verify
// @functions DatabaseHeader::to_bytes, UnrepairedDatabaseHeader::from_bytes, TransactionHeader::{to_bytes,from_bytes}
// @bound geometry 512/0/16; flags, primary index, counts (one valid combination), both slots arbitrary
// @stubs xxh3_checksum -> injective uninterpreted function; alloc::fmt::format -> empty string
#[kani::proof]
#[kani::unwind(12)]
#[kani::stub(crate::tree_store::page_store::page_manager::xxh3_checksum, uf_checksum)]
#[kani::stub(alloc::fmt::format, no_format)]
fn c10_header_codec() {
    let p: usize = kani::any();
    kani::assume(p <= 1);
    let full: u32 = kani::any();
    let trailing: u32 = kani::any();
    kani::assume(trailing <= 16 && full <= MAX_REGIONS - 1 && (full > 0 || trailing > 0));
    let h = DatabaseHeader {
        primary_slot: p,
        recovery_required: kani::any(),
        two_phase_commit: kani::any(),
        page_size: 512,
        region_header_pages: 0,
        region_max_data_pages: 16,
        full_regions: full,
        trailing_partial_region_pages: trailing,
        transaction_slots: [any_valid_slot(), any_valid_slot()],
    };
    let b = h.to_bytes(true);
    assert!(b[..9] == MAGICNUMBER);
    assert!(b[9] == (p as u8) | if h.recovery_required { 2 } else { 0 } | if h.two_phase_commit { 4 } else { 0 });
    assert!(b[10] == 0 && b[11] == 0);
    assert!(get_u32(&b[12..]) == 512 && get_u32(&b[16..]) == 0 && get_u32(&b[20..]) == 16);
    assert!(get_u32(&b[24..]) == full && get_u32(&b[28..]) == trailing);
    assert!(bytes128_eq(&b[64..192], &h.transaction_slots[0].to_bytes()));
    assert!(bytes128_eq(&b[192..320], &h.transaction_slots[1].to_bytes()));
    match UnrepairedDatabaseHeader::from_bytes(&b, 512) {
        Ok(u) => {
            assert!(!u.primary_corrupted && !u.secondary_corrupted);
            assert!(u.inner.primary_slot == p);
            assert!(u.inner.recovery_required == h.recovery_required);
            assert!(u.inner.two_phase_commit == h.two_phase_commit);
            assert!(u.inner.full_regions == full && u.inner.trailing_partial_region_pages == trailing);
            assert!(slot_same(&u.inner.transaction_slots[0], &h.transaction_slots[0]));
            assert!(slot_same(&u.inner.transaction_slots[1], &h.transaction_slots[1]));
            kani::cover!(p == 1 && h.two_phase_commit, "primary 1 with 2PC flag");
        }
        Err(e) => {
            assert!(false, "a header written by to_bytes parses");
            core::mem::forget(e);
        }
    }
}

// ---- C01: one commit step, every crash cut and torn subset, recovered by the real header code ----

/// Pre-state satisfying invariant I (DESIGN.md section 4): primary slot valid; secondary either
/// carries a non-matching checksum (arbitrary bytes) or is valid with id <= primary id (and
/// equal content when the ids are equal); recovery_required set.
fn any_i_state(p: usize, fixed_sec_corrupt: Option<bool>) -> (DatabaseHeader, TransactionHeader) {
    let prim = any_valid_slot();
    let sec_corrupt: bool = match fixed_sec_corrupt {
        Some(b) => b,
        None => kani::any(),
    };
    let sec = if sec_corrupt {
        let mut raw: [u8; TRANSACTION_SIZE] = kani::any();
        raw[0] = FILE_FORMAT_VERSION3;
        TransactionHeader {
            version: FILE_FORMAT_VERSION3,
            user_root: None,
            system_root: None,
            transaction_id: TransactionId::new(kani::any()),
            corrupt_bytes: Some(raw),
        }
    } else {
        let s = any_valid_slot();
        kani::assume(s.transaction_id <= prim.transaction_id);
        if s.transaction_id == prim.transaction_id {
            kani::assume(slot_same(&s, &prim));
        }
        s
    };
    let slots = if p == 0 { [prim.clone(), sec] } else { [sec, prim.clone()] };
    let h = DatabaseHeader {
        primary_slot: p,
        recovery_required: true,
        two_phase_commit: kani::any(),
        page_size: 512,
        region_header_pages: 0,
        region_max_data_pages: 16,
        full_regions: 1,
        trailing_partial_region_pages: 0,
        transaction_slots: slots,
    };
    (h, prim)
}

/// Crash model on the header (DESIGN.md 3.5). `cut`:
///   0 = before the first header write          3 = after the second header write
///   1 = after the first header write           4 = after the final flush (commit returned)
///   2 = after the 2PC flush (2PC only)
/// `gran` bytes are torn together (1 = byte granular).
fn crash_step(p: usize, gran: usize, fixed_cut: Option<u8>, fixed_2pc: Option<bool>, fixed_sec_corrupt: Option<bool>) {
    let (h0, old) = any_i_state(p, fixed_sec_corrupt);
    let d0 = h0.to_bytes(true);
    // A-TORN part 1: a corrupt secondary in the pre-state does not carry a matching checksum
    if let Some(raw) = h0.transaction_slots[p ^ 1].corrupt_bytes {
        let mut c = [0u8; 16];
        c.copy_from_slice(&raw[SLOT_CHECKSUM_OFFSET..]);
        kani::assume(uf_checksum(&raw[..SLOT_CHECKSUM_OFFSET]) != u128::from_le_bytes(c));
    }
    // the commit, as c01_commit_events shows commit() performs it: H1 = H0 with the secondary
    // slot overwritten, H2 = H1 with the primary index flipped and the 2PC flag set to two_phase.
    // By c10_header_codec the byte image is field-wise: W1 = D0 with the slot region replaced by
    // the new slot's 128 bytes, W2 = W1 with the god byte replaced - so only the new slot is
    // serialised here (a full to_bytes per image made this query 3x more expensive).
    let two_phase: bool = match fixed_2pc {
        Some(b) => b,
        None => kani::any(),
    };
    let new_id = TransactionId::new(kani::any());
    kani::assume(new_id > old.transaction_id);
    let new_user = any_root();
    let new_sys = any_root();
    let mut h1 = h0.clone();
    h1.write_secondary_slot(new_id, new_user, new_sys);
    let new_slot = h1.transaction_slots[p ^ 1].to_bytes();
    let god2: u8 = ((p ^ 1) as u8) | RECOVERY_REQUIRED | if two_phase { TWO_PHASE_COMMIT } else { 0 };

    let cut: u8 = match fixed_cut {
        Some(c) => c,
        None => kani::any(),
    };
    kani::assume(cut <= 4);
    kani::assume(two_phase || cut != 2);
    // the disk image after the crash
    let mut img = d0;
    let slot_off = if p == 0 { TRANSACTION_1_OFFSET } else { TRANSACTION_0_OFFSET };
    let mut all_taken = true;
    if cut >= 1 {
        // the slot bytes of W1: durable in full once a flush followed, else any subset
        let slot_durable = (two_phase && cut >= 2) || cut == 4;
        let mut i = 0usize;
        while i < TRANSACTION_SIZE {
            let take: bool = if slot_durable { true } else { kani::any() };
            if take {
                let mut j = 0usize;
                while j < gran {
                    img[slot_off + i + j] = new_slot[i + j];
                    j += 1;
                }
            } else {
                all_taken = false;
            }
            i += gran;
        }
    } else {
        all_taken = false;
    }
    if cut >= 3 {
        let take: bool = if cut == 4 { true } else { kani::any() };
        if take {
            img[GOD_BYTE_OFFSET] = god2;
        } else {
            all_taken = false;
        }
    } else {
        all_taken = false;
    }
    // A-TORN part 2: a slot image that is a mixture (its checksummed part was never written by
    // anyone as a whole) does not carry a matching checksum
    {
        let s = &img[slot_off..slot_off + TRANSACTION_SIZE];
        if !uf_known(&s[..SLOT_CHECKSUM_OFFSET]) {
            let mut c = [0u8; 16];
            c.copy_from_slice(&s[SLOT_CHECKSUM_OFFSET..]);
            kani::assume(uf_checksum(&s[..SLOT_CHECKSUM_OFFSET]) != u128::from_le_bytes(c));
        }
    }
    // were all data pages of the new commit durable? yes once a flush preceded the crash
    let pages_durable: bool = if (two_phase && cut >= 2) || cut == 4 { true } else { kani::any() };

    // recovery, by the real code
    let file_len: u64 = 512 + 16 * 512;
    let u = match UnrepairedDatabaseHeader::from_bytes(&img, 512) {
        Ok(u) => u,
        Err(e) => {
            assert!(false, "header of a crashed commit parses");
            core::mem::forget(e);
            return;
        }
    };
    assert!(u.recovery_required(file_len), "a crashed commit always needs recovery");
    let (rec, _clean) = match u.finalize(file_len) {
        Ok(x) => x,
        Err(_) => {
            assert!(false, "finalize succeeds on every crash image of a commit");
            return;
        }
    };
    let sel = rec.primary_slot();
    let is_old = slot_same(sel, &old) && sel.corrupt_bytes.is_none();
    let is_new = sel.transaction_id == new_id
        && root_eq(&sel.user_root, &new_user)
        && root_eq(&sel.system_root, &new_sys)
        && sel.corrupt_bytes.is_none();
    assert!(is_old || is_new, "recovered commit point is the old or the new commit, whole");
    if cut == 4 || all_taken {
        // everything the commit wrote is on disk (that is the image once commit returned)
        assert!(is_new, "a commit that returned is never lost");
    }
    if cut == 0 {
        assert!(is_old);
    }
    if is_new && !is_old && !pages_durable {
        // the repair must be able to fall back: 2PC flag clear, other slot is the old commit
        assert!(!rec.two_phase_commit, "an unverified new slot is never under the 2PC promise");
        let other = rec.secondary_slot();
        assert!(slot_same(other, &old) && other.corrupt_bytes.is_none(), "fallback slot is the old commit, valid");
        kani::cover!(true, "new slot selected although its pages are not durable (repair falls back)");
    }
    assert!(rec.recovery_required);
    kani::cover!(is_new && cut == 3, "new commit survived a crash before the final flush");
    kani::cover!(is_old && cut == 3 && !is_new, "old commit kept after the god byte was written");
    kani::cover!(rec.primary_slot != h0.primary_slot && is_old, "old commit recovered from the other index");
}

macro_rules! crash_harness {
    ($name:ident, $p:expr, $gran:expr, $cut:expr, $tp:expr, $unwind:literal) => {
        crash_harness!($name, $p, $gran, $cut, $tp, None, $unwind);
    };
    ($name:ident, $p:expr, $gran:expr, $cut:expr, $tp:expr, $sec:expr, $unwind:literal) => {
        #[kani::proof]
        #[kani::unwind($unwind)]
        #[kani::stub(crate::tree_store::page_store::page_manager::xxh3_checksum, uf_checksum)]
        #[kani::stub(alloc::fmt::format, no_format)]
        fn $name() {
            crash_step($p, $gran, $cut, $tp, $sec);
        }
    };
}

// @harness props=C01 tier=quick timeout=2400 mem=24 rss=11 stubbing=1 replay=scenario:crash optcover=survived|kept|other|falls
// @desc one durable commit from any pre-state satisfying invariant I, crashed after the second header write and before the final flush returned (cut 3: in 1PC every 16-byte word of the slot and the god byte independently persisted or not - this includes "nothing persisted", cut 1 and "everything persisted", i.e. the image once commit returned; in 2PC the slot is durable and the god byte persisted or not) in the named mode (1pc/2pc) and primary index (p0/p1), with the god byte and each 16-byte word of the overwritten slot independently persisted or not: the real from_bytes + finalize return Ok; the slot they select is the old commit or the new one, whole (id, data root, system root); it is the new one whenever commit had returned; when the new slot is selected but its pages are not durable the 2PC flag is clear and the other slot is the old commit with a matching checksum; recovery_required stays set
// @functions DatabaseHeader::{write_secondary_slot,swap_primary_slot,to_bytes,primary_slot,secondary_slot}, TransactionHeader::{to_bytes,from_bytes}, UnrepairedDatabaseHeader::{from_bytes,recovery_required,finalize,select_primary_slot,layout_from_file_len}, DatabaseLayout::recalculate
// @bound one commit step; geometry 512/0/16, one region; torn region = god byte + the 128 bytes of the overwritten slot in 16-byte words; ids, roots, pre-state flags, pre-state secondary (valid or arbitrary corrupt bytes) symbolic; cut, commit mode and primary index fixed per harness (all combinations are registered)
// @stubs xxh3_checksum -> injective uninterpreted function; alloc::fmt::format -> empty string
// @assumes A-TORN: a slot image whose checksummed part is not byte-identical to one really written does not carry a matching checksum; event order of commit() as proved by c01_commit_events
crash_harness!(c01_crash_p0_1pc_cut3, 0, 16, Some(3), Some(false), 18);
crash_harness!(c01_crash_p0_2pc_cut3, 0, 16, Some(3), Some(true), 18);

// the same two queries with the primary in slot 1 (620-830 s each; the quick tier has to fit in
// 900 s wall, so they run in the thorough tier)
// @harness props=C01 tier=thorough timeout=2400 mem=24 rss=11 stubbing=1 replay=scenario:crash optcover=survived|kept|other|falls
// @desc one durable commit from any pre-state satisfying invariant I, crashed after the second header write and before the final flush returned (cut 3: in 1PC every 16-byte word of the slot and the god byte independently persisted or not - this includes "nothing persisted", cut 1 and "everything persisted", i.e. the image once commit returned; in 2PC the slot is durable and the god byte persisted or not) in the named mode (1pc/2pc) and primary index (p0/p1), with the god byte and each 16-byte word of the overwritten slot independently persisted or not: the real from_bytes + finalize return Ok; the slot they select is the old commit or the new one, whole (id, data root, system root); it is the new one whenever commit had returned; when the new slot is selected but its pages are not durable the 2PC flag is clear and the other slot is the old commit with a matching checksum; recovery_required stays set
// @functions DatabaseHeader::{write_secondary_slot,swap_primary_slot,to_bytes,primary_slot,secondary_slot}, TransactionHeader::{to_bytes,from_bytes}, UnrepairedDatabaseHeader::{from_bytes,recovery_required,finalize,select_primary_slot,layout_from_file_len}, DatabaseLayout::recalculate
// @bound one commit step; geometry 512/0/16, one region; torn region = god byte + the 128 bytes of the overwritten slot in 16-byte words; ids, roots, pre-state flags, pre-state secondary (valid or arbitrary corrupt bytes) symbolic; cut, commit mode and primary index fixed per harness (all combinations are registered)
// @stubs xxh3_checksum -> injective uninterpreted function; alloc::fmt::format -> empty string
// @assumes A-TORN: a slot image whose checksummed part is not byte-identical to one really written does not carry a matching checksum; event order of commit() as proved by c01_commit_events
crash_harness!(c01_crash_p1_1pc_cut3, 1, 16, Some(3), Some(false), 18);
crash_harness!(c01_crash_p1_2pc_cut3, 1, 16, Some(3), Some(true), 18);

// @harness props=C01 tier=thorough timeout=3600 mem=24 stubbing=1 replay=scenario:crash optcover=survived|kept|other|falls
// @desc the remaining cuts of the c01_crash_* family (1 = after the first header write, 2 = after the 2PC flush, 4 = commit returned). They are subsumed by the cut-3 harnesses of the quick tier (cut 1/2 = cut 3 with the god byte not persisted; cut 4 = cut 3 with everything persisted, for which the cut-3 harnesses also assert "new commit") and are kept as independent cross-checks
// @functions as c01_crash_p0_1pc_cut3
// @bound as c01_crash_p0_1pc_cut3, cut as named
// @stubs xxh3_checksum -> injective uninterpreted function; alloc::fmt::format -> empty string
// @assumes A-TORN; image structure as proved by c01_commit_events and c10_header_codec
crash_harness!(c01_crash_p0_1pc_cut1, 0, 16, Some(1), Some(false), 18);
crash_harness!(c01_crash_p0_1pc_cut4, 0, 16, Some(4), Some(false), 18);
crash_harness!(c01_crash_p0_2pc_cut1, 0, 16, Some(1), Some(true), 18);
crash_harness!(c01_crash_p0_2pc_cut2, 0, 16, Some(2), Some(true), 18);
crash_harness!(c01_crash_p0_2pc_cut4, 0, 16, Some(4), Some(true), 18);

// @harness props=C01 tier=thorough timeout=3600 mem=32 stubbing=1 replay=scenario:crash attempt=1
// @desc as the c01_crash_* family with every cut and both commit modes in ONE query (primary index 0 / 1), and - for the _bytes variant - byte-granular tearing (each of the 128 slot bytes independently persisted)
// @functions as c01_crash_p0_1pc_cut1
// @bound as c01_crash_p0_1pc_cut1; cut and commit mode symbolic; _bytes: torn byte by byte
// @stubs xxh3_checksum -> injective uninterpreted function; alloc::fmt::format -> empty string
// @assumes A-TORN; event order of commit() as proved by c01_commit_events
crash_harness!(c01_crash_recover_p0_w16, 0, 16, None, None, 18);
crash_harness!(c01_crash_recover_p1_w16, 1, 16, None, None, 18);
crash_harness!(c01_crash_recover_p0_bytes, 0, 1, None, None, 130);

// negative twin: drop the "commit returned" premise - claims the new commit is always recovered
// @harness props=C01 tier=quick timeout=2300 mem=24 rss=8 stubbing=1 expect=fail replay=scenario:crash
// @desc negative twin of c01_crash_recover: asserts that the new commit is recovered at every cut, which must fail (reachability witness for the crash model)
// @functions as c01_crash_recover_p0_w16
// @bound as c01_crash_recover_p0_w16
// @stubs xxh3_checksum -> injective uninterpreted function; alloc::fmt::format -> empty string
#[kani::proof]
#[kani::unwind(130)]
#[kani::stub(crate::tree_store::page_store::page_manager::xxh3_checksum, uf_checksum)]
#[kani::stub(alloc::fmt::format, no_format)]
fn c01_twin_crash_must_fail() {
    let (h0, old) = any_i_state(0, None);
    let new_id = TransactionId::new(kani::any());
    kani::assume(new_id > old.transaction_id);
    let mut h1 = h0.clone();
    h1.write_secondary_slot(new_id, None, None);
    let w1 = h1.to_bytes(true);
    let mut img = h0.to_bytes(true);
    let take: bool = kani::any();
    if take {
        let mut i = 0usize;
        while i < TRANSACTION_SIZE {
            img[TRANSACTION_1_OFFSET + i] = w1[TRANSACTION_1_OFFSET + i];
            i += 1;
        }
    }
    let file_len: u64 = 512 + 16 * 512;
    if let Ok(u) = UnrepairedDatabaseHeader::from_bytes(&img, 512) {
        if let Ok((rec, _)) = u.finalize(file_len) {
            assert!(rec.primary_slot().transaction_id == new_id);
        }
    }
}
