// Mounted under src/tree_store/page_store/buddy_allocator.rs as `mod verif_kani` (cfg(kani)).
// C14 / C11: one inductive step of every BuddyAllocator operation from an arbitrary state that
// satisfies the representation invariant R, decided on the raw bitmap words.
#![allow(dead_code, unused_imports, unused_comparisons, clippy::all, clippy::pedantic)]

use super::BuddyAllocator;
use crate::tree_store::page_store::bitmap::BtreeBitmap;
use crate::tree_store::page_store::bitmap::verif_kani::{mk_padded, summary_ok};
use alloc::vec::Vec;

pub(crate) const MAXO: usize = 9; // orders 0..=7 (capacity <= 128) + one slot for the "order too large" probe

impl BuddyAllocator {
    pub(crate) fn verif_raw(free: Vec<BtreeBitmap>, len: u32, max_order: u8) -> Self {
        Self {
            free,
            len,
            max_order,
        }
    }
    pub(crate) fn verif_free(&self) -> &Vec<BtreeBitmap> {
        &self.free
    }
    pub(crate) fn verif_max_order(&self) -> u8 {
        self.max_order
    }
}

pub(crate) const fn log2(c: u32) -> u8 {
    (31 - c.leading_zeros()) as u8
}

/// Symbolic leaf words for every order: at most two words per order (capacity <= 128).
pub(crate) type Words = [[u64; 2]; MAXO];

pub(crate) fn any_words() -> Words {
    let mut w: Words = [[u64::MAX; 2]; MAXO];
    let mut o = 0;
    while o < MAXO - 1 {
        w[o][0] = kani::any();
        w[o][1] = kani::any();
        o += 1;
    }
    w
}

fn bm(n: u32, cap: u32, o: usize, w: &Words) -> BtreeBitmap {
    mk_padded(n >> o, cap >> o, &[w[o][0], w[o][1], u64::MAX])
}

/// Struct-literal allocator of region length `n`, region capacity `cap`, whose order-`o` leaf
/// words are `w[o]` (bits beyond the order's length forced to one, summary levels computed).
/// Built with `vec![..]` literals only (loop-built Vecs lose CBMC's constant propagation).
pub(crate) fn mk_alloc(n: u32, cap: u32, w: &Words) -> BuddyAllocator {
    let max_order = log2(cap);
    let free: Vec<BtreeBitmap> = match max_order {
        0 => alloc::vec![bm(n, cap, 0, w)],
        1 => alloc::vec![bm(n, cap, 0, w), bm(n, cap, 1, w)],
        2 => alloc::vec![bm(n, cap, 0, w), bm(n, cap, 1, w), bm(n, cap, 2, w)],
        3 => alloc::vec![bm(n, cap, 0, w), bm(n, cap, 1, w), bm(n, cap, 2, w), bm(n, cap, 3, w)],
        4 => alloc::vec![
            bm(n, cap, 0, w), bm(n, cap, 1, w), bm(n, cap, 2, w), bm(n, cap, 3, w), bm(n, cap, 4, w)
        ],
        5 => alloc::vec![
            bm(n, cap, 0, w), bm(n, cap, 1, w), bm(n, cap, 2, w), bm(n, cap, 3, w), bm(n, cap, 4, w),
            bm(n, cap, 5, w)
        ],
        6 => alloc::vec![
            bm(n, cap, 0, w), bm(n, cap, 1, w), bm(n, cap, 2, w), bm(n, cap, 3, w), bm(n, cap, 4, w),
            bm(n, cap, 5, w), bm(n, cap, 6, w)
        ],
        _ => alloc::vec![
            bm(n, cap, 0, w), bm(n, cap, 1, w), bm(n, cap, 2, w), bm(n, cap, 3, w), bm(n, cap, 4, w),
            bm(n, cap, 5, w), bm(n, cap, 6, w), bm(n, cap, 7, w)
        ],
    };
    BuddyAllocator::verif_raw(free, n, max_order)
}

pub(crate) fn leaf_word(a: &BuddyAllocator, o: usize, w: usize) -> u64 {
    let b = &a.verif_free()[o];
    b.verif_word(b.verif_height() - 1, w)
}

pub(crate) fn leaf_clear(a: &BuddyAllocator, o: usize, i: u32) -> bool {
    leaf_word(a, o, (i / 64) as usize) & (1u64 << (i % 64)) == 0
}

pub(crate) fn block_mask(i: u32, o: u8) -> u128 {
    let size = 1u32 << o;
    let ones: u128 = if size == 128 { u128::MAX } else { (1u128 << size) - 1 };
    ones << (i << o)
}

/// Representation invariant R, evaluated on the raw words, independent of BtreeBitmap::get.
/// Returns the free set (bit p = page p is free) when R holds.
///  - structure: max_order = log2(cap), one bitmap per order with the new_padded shape for
///    (n >> o, cap >> o), summary levels consistent, bits beyond each length set
///  - free blocks of all orders pairwise disjoint (and inside the region, by the lengths)
///  - below the maximal order no two buddies are both free
pub(crate) fn r_inv(a: &BuddyAllocator, n: u32, cap: u32) -> Option<u128> {
    let max_order = log2(cap);
    if a.len() != n || a.verif_max_order() != max_order {
        return None;
    }
    if a.verif_free().len() != max_order as usize + 1 {
        return None;
    }
    let mut mask: u128 = 0;
    let mut ok = true;
    let mut o = 0u8;
    while o <= max_order {
        let n_o = n >> o;
        if !summary_ok(&a.verif_free()[o as usize], n_o, cap >> o) {
            return None;
        }
        let mut i = 0u32;
        while i < n_o {
            if leaf_clear(a, o as usize, i) {
                let bm = block_mask(i, o);
                if mask & bm != 0 {
                    ok = false;
                }
                mask |= bm;
                if o < max_order {
                    let buddy = i ^ 1;
                    if buddy < n_o && leaf_clear(a, o as usize, buddy) {
                        ok = false;
                    }
                }
            }
            i += 1;
        }
        o += 1;
    }
    if ok { Some(mask) } else { None }
}

/// true iff the free set contains an aligned run of 2^o pages inside the region
pub(crate) fn has_aligned_run(mask: u128, n: u32, o: u8) -> bool {
    let n_o = n >> o;
    let mut i = 0u32;
    let mut found = false;
    while i < n_o {
        let bm = block_mask(i, o);
        if mask & bm == bm {
            found = true;
        }
        i += 1;
    }
    found
}

/// lowest index (at order o) of an aligned free run of 2^o pages, if any
pub(crate) fn lowest_aligned_run(mask: u128, n: u32, o: u8) -> Option<u32> {
    let n_o = n >> o;
    let mut i = n_o;
    let mut best: Option<u32> = None;
    while i > 0 {
        i -= 1;
        let bm = block_mask(i, o);
        if mask & bm == bm {
            best = Some(i);
        }
    }
    best
}

pub(crate) fn snapshot(a: &BuddyAllocator) -> Words {
    let mut w: Words = [[u64::MAX; 2]; MAXO];
    let mut o = 0usize;
    while o < a.verif_free().len() {
        w[o][0] = leaf_word(a, o, 0);
        w[o][1] = leaf_word(a, o, 1);
        o += 1;
    }
    w
}

pub(crate) fn words_eq(a: &Words, b: &Words) -> bool {
    let mut eq = true;
    let mut o = 0usize;
    while o < MAXO {
        if a[o][0] != b[o][0] || a[o][1] != b[o][1] {
            eq = false;
        }
        o += 1;
    }
    eq
}

// --- the steps ------------------------------------------------------------------------------
// The order is dispatched through `match` so that every call into the allocator has a concrete
// order (it indexes Vec<BtreeBitmap> and bounds the recursion); post-conditions are evaluated
// once, after the join, on the raw words.

fn any_pre<const N: u32, const C: u32>() -> (BuddyAllocator, u128, Words) {
    let w = any_words();
    let a = mk_alloc(N, C, &w);
    let pre = r_inv(&a, N, C);
    kani::assume(pre.is_some());
    let pre_words = snapshot(&a);
    (a, pre.unwrap(), pre_words)
}

fn step_alloc<const N: u32, const C: u32>(lowest: bool) {
    let (mut a, pre, pre_words) = any_pre::<N, C>();
    let o: u8 = kani::any();
    kani::assume(o <= log2(C) + 1);
    macro_rules! call {
        ($k:expr) => {
            if lowest { a.alloc_lowest($k) } else { a.alloc($k) }
        };
    }
    let r = match o {
        0 => call!(0u8),
        1 => call!(1u8),
        2 => call!(2u8),
        3 => call!(3u8),
        4 => call!(4u8),
        5 => call!(5u8),
        6 => call!(6u8),
        7 => call!(7u8),
        _ => call!(8u8),
    };
    match r {
        Some(x) => {
            assert!(o <= log2(C));
            assert!(x < (N >> o), "block index inside the region");
            let bm = block_mask(x, o);
            assert!(pre & bm == bm, "block handed out was entirely free");
            let post = r_inv(&a, N, C);
            assert!(post.is_some(), "R holds after alloc");
            assert!(post.unwrap() == pre & !bm, "free set shrank by exactly the block");
            if lowest {
                assert!(lowest_aligned_run(pre, N, o) == Some(x), "alloc_lowest returns the lowest run");
            }
            kani::cover!(pre_words[o as usize][0] == u64::MAX && pre_words[o as usize][1] == u64::MAX,
                "alloc had to split a larger block");
        }
        None => {
            assert!(o > log2(C) || !has_aligned_run(pre, N, o), "refused only when impossible");
            assert!(words_eq(&snapshot(&a), &pre_words), "refusal changes nothing");
            kani::cover!(o <= log2(C), "alloc refused an in-range order");
        }
    }
    core::mem::forget(a);
}

/// alloc (or alloc_lowest) followed by free of the returned block restores every word
fn step_alloc_free<const N: u32, const C: u32>(lowest: bool) {
    let (mut a, pre, pre_words) = any_pre::<N, C>();
    let o: u8 = kani::any();
    kani::assume(o <= log2(C));
    macro_rules! call {
        ($k:expr) => {{
            let r = if lowest { a.alloc_lowest($k) } else { a.alloc($k) };
            if let Some(x) = r {
                let m = a.free(x, $k);
                assert!(m >= $k);
            }
            r
        }};
    }
    let r = match o {
        0 => call!(0u8),
        1 => call!(1u8),
        2 => call!(2u8),
        3 => call!(3u8),
        4 => call!(4u8),
        5 => call!(5u8),
        6 => call!(6u8),
        _ => call!(7u8),
    };
    assert!(words_eq(&snapshot(&a), &pre_words), "alloc;free is the identity on the bitmaps");
    assert!(r_inv(&a, N, C) == Some(pre));
    kani::cover!(r.is_some(), "allocated and freed");
    core::mem::forget(a);
}

fn step_free<const N: u32, const C: u32>() {
    let (mut a, pre, pre_words) = any_pre::<N, C>();
    let o: u8 = kani::any();
    kani::assume(o <= log2(C));
    let x: u32 = kani::any();
    kani::assume(x < (N >> o));
    let bm = block_mask(x, o);
    // documented precondition: the block is allocated (none of its pages is free)
    kani::assume(pre & bm == 0);
    let m = match o {
        0 => a.free(x, 0),
        1 => a.free(x, 1),
        2 => a.free(x, 2),
        3 => a.free(x, 3),
        4 => a.free(x, 4),
        5 => a.free(x, 5),
        6 => a.free(x, 6),
        _ => a.free(x, 7),
    };
    let post = r_inv(&a, N, C);
    assert!(post.is_some(), "R holds after free (maximal merging)");
    assert!(post.unwrap() == pre | bm, "free set grew by exactly the block");
    assert!(m >= o && m <= log2(C));
    // the returned order is the order at which the block is now marked free
    assert!(leaf_clear(&a, m as usize, x >> (m - o)), "returned order is where the block is marked");
    // no bitmap above the returned order changed
    let now = snapshot(&a);
    let mut oo = 0usize;
    while oo < MAXO {
        if oo > m as usize {
            assert!(now[oo][0] == pre_words[oo][0] && now[oo][1] == pre_words[oo][1]);
        }
        oo += 1;
    }
    kani::cover!(m >= o + 2, "merged two levels");
    kani::cover!(m == o, "no merge");
    core::mem::forget(a);
}

fn step_record<const N: u32, const C: u32>() {
    let (mut a, pre, pre_words) = any_pre::<N, C>();
    let o: u8 = kani::any();
    kani::assume(o <= log2(C) + 1);
    // any 20-bit page index: record_alloc faces page numbers read from a file
    let x: u32 = kani::any();
    kani::assume(x <= 0x000F_FFFF);
    let ok = match o {
        0 => a.record_alloc(x, 0),
        1 => a.record_alloc(x, 1),
        2 => a.record_alloc(x, 2),
        3 => a.record_alloc(x, 3),
        4 => a.record_alloc(x, 4),
        5 => a.record_alloc(x, 5),
        6 => a.record_alloc(x, 6),
        7 => a.record_alloc(x, 7),
        _ => a.record_alloc(x, 8),
    };
    let in_range = o <= log2(C) && x < (N >> o);
    if ok {
        assert!(in_range, "accepted block lies inside the region");
        let bm = block_mask(x, o);
        assert!(pre & bm == bm, "accepted block was entirely free");
        let post = r_inv(&a, N, C);
        assert!(post.is_some());
        assert!(post.unwrap() == pre & !bm, "exactly the block was removed");
        kani::cover!(!leaf_clear_words(&pre_words, o as usize, x), "record_alloc split a parent");
    } else {
        // refused: out of range, order too large, or overlapping an allocated page
        if in_range {
            let bm = block_mask(x, o);
            assert!(pre & bm != bm, "an entirely free in-range block is never refused");
            // Note: the partially-split state left behind by a refused call is not constrained
            // here; callers treat `false` as corruption and discard the allocator.
        }
        kani::cover!(in_range, "refused an in-range block (overlap)");
        kani::cover!(!in_range, "refused an out-of-range block");
    }
    core::mem::forget(a);
}

fn leaf_clear_words(w: &Words, o: usize, i: u32) -> bool {
    if o >= MAXO || i >= 128 {
        return false;
    }
    w[o][(i / 64) as usize] & (1u64 << (i % 64)) == 0
}

/// `new(n, cap)`: structure equals the struct literal used by the other harnesses (so the
/// literal is a faithful pre-state shape), R holds and every page is free.
fn step_new<const N: u32, const C: u32>() {
    let a = BuddyAllocator::new(N, C);
    let r = r_inv(&a, N, C);
    assert!(r.is_some(), "R holds for a fresh allocator");
    let all: u128 = if N == 128 { u128::MAX } else { (1u128 << N) - 1 };
    assert!(r.unwrap() == all, "every page of a fresh allocator is free");
    assert!(a.count_free_pages() == N);
    assert!(a.count_allocated_pages() == 0);
    // exact shape: the literal the other harnesses use has exactly the Vec lengths `new` makes
    let w = [[0u64; 2]; MAXO];
    let lit = mk_alloc(N, C, &w);
    let mut o = 0usize;
    while o <= log2(C) as usize {
        let x = &a.verif_free()[o];
        let y = &lit.verif_free()[o];
        assert!(x.verif_height() == y.verif_height());
        let mut l = 0usize;
        while l < x.verif_height() {
            assert!(x.verif_level_len(l) == y.verif_level_len(l));
            assert!(x.verif_level_words(l) == y.verif_level_words(l));
            l += 1;
        }
        o += 1;
    }
    kani::cover!(true, "new completed");
    core::mem::forget(a);
    core::mem::forget(lit);
}

/// to_vec / from_bytes: identity on every word, length and order; the serialised length
/// depends only on (n, cap).
fn step_codec<const N: u32, const C: u32>() {
    let (a, pre, pre_words) = any_pre::<N, C>();
    let v = a.to_vec();
    let zero = [[0u64; 2]; MAXO];
    let fresh = mk_alloc(N, C, &zero).to_vec();
    assert!(v.len() == fresh.len(), "serialised length depends only on the region length");
    let b = BuddyAllocator::from_bytes(&v);
    assert!(r_inv(&b, N, C) == Some(pre), "reloaded allocator has the same free set and satisfies R");
    assert!(words_eq(&pre_words, &snapshot(&b)), "every leaf word survives the round trip");
    assert!(b.len() == a.len() && b.get_max_order() == a.get_max_order());
    kani::cover!(pre != 0, "non-trivial state");
    core::mem::forget(a);
    core::mem::forget(b);
    core::mem::forget(v);
    core::mem::forget(fresh);
}

/// queries: count_free_pages, highest_free_order, trailing_free_pages against the free set
fn step_queries<const N: u32, const C: u32>() {
    let (a, pre, _pre_words) = any_pre::<N, C>();
    assert!(a.count_free_pages() == pre.count_ones());
    assert!(a.count_allocated_pages() == N - pre.count_ones());
    // trailing_free_pages = number of free pages at the end of the region
    let mut t = 0u32;
    let mut p = N;
    let mut run = true;
    while p > 0 {
        p -= 1;
        if run && pre & (1u128 << p) != 0 {
            t += 1;
        } else {
            run = false;
        }
    }
    assert!(a.trailing_free_pages() == t, "trailing_free_pages counts exactly the free tail");
    match a.highest_free_order() {
        Some(h) => {
            assert!(has_aligned_run(pre, N, h));
            let mut o = 0u8;
            while o <= log2(C) {
                if o > h {
                    assert!(!has_aligned_run(pre, N, o));
                }
                o += 1;
            }
        }
        None => assert!(pre == 0),
    }
    kani::cover!(t > 0 && t < N || N == 1, "partial free tail");
    core::mem::forget(a);
}


fn range_mask(lo: u32, hi: u32) -> u128 {
    let upto = |k: u32| -> u128 { if k >= 128 { u128::MAX } else { (1u128 << k) - 1 } };
    upto(hi) & !upto(lo)
}

/// resize(M) of a region of length N < M: every old page keeps its state and exactly the new
/// pages become free; R holds at the new length
fn step_grow<const N: u32, const M: u32, const C: u32>() {
    let (mut a, pre, _pre_words) = any_pre::<N, C>();
    a.resize(M);
    let post = r_inv(&a, M, C);
    assert!(post.is_some(), "R holds at the new length (blocks aligned, maximally merged, tails set)");
    assert!(post.unwrap() == pre | range_mask(N, M), "old pages keep their state, new pages are free");
    assert!(a.len() == M);
    kani::cover!(pre == 0, "grown from a full region");
    kani::cover!(pre & (1u128 << (N - 1)) != 0, "last old page free: may merge with the new space");
    core::mem::forget(a);
}

/// resize(M) of a region of length N > M (precondition of try_shrink / resize_to, asserted by
/// resize itself: the cut pages are all free): the remaining pages keep their state; R holds
fn step_shrink<const N: u32, const M: u32, const C: u32>() {
    let (mut a, pre, _pre_words) = any_pre::<N, C>();
    kani::assume(pre & range_mask(M, N) == range_mask(M, N));
    a.resize(M);
    let post = r_inv(&a, M, C);
    assert!(post.is_some(), "R holds at the new length");
    assert!(post.unwrap() == pre & range_mask(0, M), "remaining pages keep their state");
    assert!(a.len() == M);
    kani::cover!(pre & range_mask(0, M) != 0 && pre & range_mask(0, M) != range_mask(0, M), "mixed state survives the cut");
    core::mem::forget(a);
}

macro_rules! buddy_harness {
    ($name:ident, grow, $n:literal, $m:literal, $c:literal, $u:literal) => {
        #[kani::proof] #[kani::unwind($u)] fn $name() { step_grow::<$n, $m, $c>(); }
    };
    ($name:ident, shrink, $n:literal, $m:literal, $c:literal, $u:literal) => {
        #[kani::proof] #[kani::unwind($u)] fn $name() { step_shrink::<$n, $m, $c>(); }
    };
    ($name:ident, alloc, $n:literal, $c:literal, $u:literal) => {
        #[kani::proof] #[kani::unwind($u)] fn $name() { step_alloc::<$n, $c>(false); }
    };
    ($name:ident, alloc_lowest, $n:literal, $c:literal, $u:literal) => {
        #[kani::proof] #[kani::unwind($u)] fn $name() { step_alloc::<$n, $c>(true); }
    };
    ($name:ident, alloc_free, $n:literal, $c:literal, $u:literal) => {
        #[kani::proof] #[kani::unwind($u)] fn $name() { step_alloc_free::<$n, $c>(false); }
    };
    ($name:ident, lowest_free, $n:literal, $c:literal, $u:literal) => {
        #[kani::proof] #[kani::unwind($u)] fn $name() { step_alloc_free::<$n, $c>(true); }
    };
    ($name:ident, free, $n:literal, $c:literal, $u:literal) => {
        #[kani::proof] #[kani::unwind($u)] fn $name() { step_free::<$n, $c>(); }
    };
    ($name:ident, record_alloc, $n:literal, $c:literal, $u:literal) => {
        #[kani::proof] #[kani::unwind($u)] fn $name() { step_record::<$n, $c>(); }
    };
    ($name:ident, new, $n:literal, $c:literal, $u:literal) => {
        #[kani::proof] #[kani::unwind($u)] fn $name() { step_new::<$n, $c>(); }
    };
    ($name:ident, codec, $n:literal, $c:literal, $u:literal) => {
        #[kani::proof] #[kani::unwind($u)] fn $name() { step_codec::<$n, $c>(); }
    };
    ($name:ident, queries, $n:literal, $c:literal, $u:literal) => {
        #[kani::proof] #[kani::unwind($u)] fn $name() { step_queries::<$n, $c>(); }
    };
}

// @GEN
