// Mounted under src/tree_store/page_store/cached_file.rs as `mod verif_kani` (cfg(kani)).
// C08: failure latch of CheckedBackend.  C20: close exactly once, nothing after close.
// Also provides the struct-literal PagedCachedFile used by the page_manager harnesses.
#![allow(dead_code, unused_imports, unused_comparisons, static_mut_refs, clippy::all, clippy::pedantic)]

use super::*;
use crate::StorageBackend;
use alloc::boxed::Box;
use core::sync::atomic::{AtomicBool, AtomicUsize, Ordering};

// ---- a backend that counts calls and fails on demand ---------------------------------------
// Counters are globals so that they survive the Box<dyn StorageBackend> being dropped.

pub(crate) static mut B_CALLS: u32 = 0; // calls that reached the backend (any method but close)
pub(crate) static mut B_CLOSE: u32 = 0; // close() calls
pub(crate) static mut B_AFTER_CLOSE: u32 = 0; // calls that reached the backend after close()
pub(crate) static mut B_FAIL_AT: u32 = u32::MAX; // index of the first failing call
pub(crate) static mut B_FAIL_FOREVER: bool = false; // every call from B_FAIL_AT on fails
pub(crate) static mut B_LEN: u64 = 0;
pub(crate) static mut B_WRITES: u32 = 0; // write / set_len / sync_data calls
pub(crate) static mut B_OOB: u32 = 0; // reads or writes beyond the current length
// "file image" mode (open-path harness): reads are served from B_IMG and a read beyond the current
// length returns an error, as the StorageBackend contract demands
pub(crate) static mut B_SERVE_IMG: bool = false;
pub(crate) static mut B_IMG: [u8; 320] = [0; 320];

#[derive(Debug)]
pub(crate) struct HBackend;

fn b_step() -> Result<(), crate::io::Error> {
    unsafe {
        if B_CLOSE > 0 {
            B_AFTER_CLOSE += 1;
        }
        let idx = B_CALLS;
        B_CALLS += 1;
        let fail = idx == B_FAIL_AT || (B_FAIL_FOREVER && B_FAIL_AT != u32::MAX && idx > B_FAIL_AT);
        if fail {
            // allocation-free error (a message-carrying io::Error explodes in its drop glue)
            Err(std::io::Error::from(std::io::ErrorKind::Other))
        } else {
            Ok(())
        }
    }
}

impl StorageBackend for HBackend {
    fn len(&self) -> Result<u64, crate::io::Error> {
        b_step()?;
        Ok(unsafe { B_LEN })
    }
    fn read(&self, offset: u64, out: &mut [u8]) -> Result<(), crate::io::Error> {
        unsafe {
            let oob = offset.checked_add(out.len() as u64).map_or(true, |e| e > B_LEN);
            if oob {
                B_OOB += 1;
            }
            if B_SERVE_IMG {
                if oob {
                    return Err(std::io::Error::from(std::io::ErrorKind::UnexpectedEof));
                }
                // the open path reads the magic number (9 bytes) and the header (320 bytes) at offset 0
                if offset == 0 && out.len() == 9 {
                    out.copy_from_slice(&B_IMG[..9]);
                } else if offset == 0 && out.len() == 320 {
                    out.copy_from_slice(&B_IMG[..]);
                }
            }
        }
        b_step()
    }
    fn set_len(&self, len: u64) -> Result<(), crate::io::Error> {
        unsafe {
            B_WRITES += 1;
        }
        b_step()?;
        unsafe {
            B_LEN = len;
        }
        Ok(())
    }
    fn sync_data(&self) -> Result<(), crate::io::Error> {
        unsafe {
            B_WRITES += 1;
        }
        b_step()
    }
    fn write(&self, offset: u64, data: &[u8]) -> Result<(), crate::io::Error> {
        unsafe {
            B_WRITES += 1;
            if offset.checked_add(data.len() as u64).map_or(true, |e| e > B_LEN) {
                B_OOB += 1;
            }
        }
        b_step()
    }
    fn close(&self) -> Result<(), crate::io::Error> {
        unsafe {
            if B_CLOSE > 0 {
                B_AFTER_CLOSE += 1;
            }
            B_CLOSE += 1;
            if kani::any() {
                return Err(std::io::Error::from(std::io::ErrorKind::Other));
            }
        }
        Ok(())
    }
}

/// PagedCachedFile by struct literal with EMPTY cache stripes (PagedCachedFile::new allocates
/// 262 stripes and does not finish symbolic execution).  Any cache method that is not stubbed
/// indexes an empty Vec and fails the harness, so a new storage call cannot go unnoticed.
/// stub of PagedCachedFile::new: the struct literal over the harness backend (the caller's backend
/// is leaked, the 262 stripe allocations are skipped)
pub(crate) fn stub_paged_cached_file_new(
    file: Box<dyn StorageBackend>,
    page_size: u64,
    _max_cache_size: usize,
) -> core::result::Result<PagedCachedFile, crate::DatabaseError> {
    core::mem::forget(file);
    Ok(literal_cached_file(page_size))
}

pub(crate) fn literal_cached_file(page_size: u64) -> PagedCachedFile {
    PagedCachedFile {
        file: CheckedBackend {
            file: Box::new(HBackend),
            io_failed: AtomicBool::new(false),
            closed: AtomicBool::new(false),
        },
        page_size,
        read_cache_bytes: AtomicUsize::new(0),
        write_buffer_bytes: AtomicUsize::new(0),
        committed_pages_buffered: AtomicBool::new(false),
        max_cache_size: 0,
        next_eviction_stripe: AtomicUsize::new(0),
        read_cache: Vec::new(),
        write_buffer: Vec::new(),
    }
}

impl PagedCachedFile {
    pub(crate) fn verif_io_failed(&self) -> bool {
        self.file.io_failed.load(Ordering::Acquire)
    }
    pub(crate) fn verif_closed(&self) -> bool {
        self.file.closed.load(Ordering::Acquire)
    }
    pub(crate) fn verif_latch_failure(&self) {
        self.file.io_failed.store(true, Ordering::Release);
    }
}

fn is_previous_io<T>(r: &Result<T>) -> bool {
    matches!(r, Err(StorageError::PreviousIo))
}

fn is_closed<T>(r: &Result<T>) -> bool {
    matches!(r, Err(StorageError::DatabaseClosed))
}

/// one arbitrary CheckedBackend operation; returns (is_err, previous_io, closed, best_effort)
fn one_op(cb: &CheckedBackend, op: u8) -> (bool, bool, bool, bool) {
    let mut buf = [0u8; 4];
    match op {
        0 => {
            let r = cb.len();
            let x = (r.is_err(), is_previous_io(&r), is_closed(&r), false);
            core::mem::forget(r);
            x
        }
        1 => {
            let r = cb.read(0, &mut buf);
            let x = (r.is_err(), is_previous_io(&r), is_closed(&r), false);
            core::mem::forget(r);
            x
        }
        2 => {
            let r = cb.write(0, &buf);
            let x = (r.is_err(), is_previous_io(&r), is_closed(&r), false);
            core::mem::forget(r);
            x
        }
        3 => {
            let r = cb.set_len(8);
            let x = (r.is_err(), is_previous_io(&r), is_closed(&r), false);
            core::mem::forget(r);
            x
        }
        4 => {
            let r = cb.sync_data();
            let x = (r.is_err(), is_previous_io(&r), is_closed(&r), false);
            core::mem::forget(r);
            x
        }
        _ => {
            let r = cb.write_best_effort(0, &buf);
            let x = (r.is_err(), is_previous_io(&r), is_closed(&r), true);
            core::mem::forget(r);
            x
        }
    }
}

// @harness props=C08 tier=quick timeout=900 mem=12
// @desc CheckedBackend under a backend that fails its k-th call (once or for good, k arbitrary), 4 arbitrary operations from {len,read,write,set_len,sync_data,write_best_effort}: an operation reports Err iff the backend call failed or a failure is latched; after a failing non-best-effort call every later call returns PreviousIo WITHOUT reaching the backend; a failing write_best_effort latches nothing; no path panics
// @functions CheckedBackend::{check_failure,len,read,write,set_len,sync_data,write_best_effort}
// @bound 4 operations, one failure point (transient or permanent); operation kinds and failure index arbitrary
#[kani::proof]
#[kani::unwind(6)]
fn c08_checked_backend_latch() {
    unsafe {
        B_FAIL_AT = kani::any();
        B_FAIL_FOREVER = kani::any();
        B_LEN = 64;
    }
    let cb = CheckedBackend {
        file: Box::new(HBackend),
        io_failed: AtomicBool::new(false),
        closed: AtomicBool::new(false),
    };
    let mut latched = false;
    let mut n = 0u8;
    while n < 4 {
        let op: u8 = kani::any();
        kani::assume(op <= 5);
        let calls_before = unsafe { B_CALLS };
        let (err, prev, closed, best_effort) = one_op(&cb, op);
        let reached = unsafe { B_CALLS } != calls_before;
        assert!(!closed, "never reports DatabaseClosed before close()");
        if latched {
            assert!(err && prev, "after a latched failure every call returns PreviousIo");
            assert!(!reached, "and does not reach the backend");
        } else {
            assert!(reached, "with no failure latched the call reaches the backend");
            assert!(!prev);
            let idx = calls_before;
            let should_fail = unsafe { idx == B_FAIL_AT || (B_FAIL_FOREVER && B_FAIL_AT != u32::MAX && idx > B_FAIL_AT) };
            assert!(err == should_fail, "the failing call itself reports the error");
            if err && !best_effort {
                latched = true;
            }
        }
        assert!(cb.io_failed.load(Ordering::Acquire) == latched, "latch state is exactly: a required call failed");
        n += 1;
    }
    kani::cover!(latched, "a failure was latched");
    kani::cover!(!latched && unsafe { B_FAIL_AT } < 4, "a best-effort failure left the backend usable");
    core::mem::forget(cb);
}

// @harness props=C20,C08 tier=quick timeout=900 mem=12
// @desc CheckedBackend: any 3 operations, then close() or not, then 2 more operations, then drop: the backend's close() runs exactly once in every case (explicit close, or Drop when close was never called; also when close itself returns an error); after close() no backend method is reached and every call returns DatabaseClosed
// @functions CheckedBackend::{close,check_failure,len,read,write,set_len,sync_data,write_best_effort}, Drop for CheckedBackend
// @bound 5 operations around an optional close; backend failures arbitrary (one failure point, close may fail)
#[kani::proof]
#[kani::unwind(6)]
fn c20_close_exactly_once() {
    unsafe {
        B_FAIL_AT = kani::any();
        B_FAIL_FOREVER = kani::any();
        B_LEN = 64;
    }
    let cb = CheckedBackend {
        file: Box::new(HBackend),
        io_failed: AtomicBool::new(false),
        closed: AtomicBool::new(false),
    };
    let mut n = 0u8;
    while n < 3 {
        let op: u8 = kani::any();
        kani::assume(op <= 5);
        let _ = one_op(&cb, op);
        n += 1;
    }
    let do_close: bool = kani::any();
    if do_close {
        let r = cb.close();
        core::mem::forget(r);
        assert!(unsafe { B_CLOSE } == 1);
        let calls = unsafe { B_CALLS };
        n = 0;
        while n < 2 {
            let op: u8 = kani::any();
            kani::assume(op <= 5);
            let (err, _prev, closed, _) = one_op(&cb, op);
            assert!(err && closed, "after close every call returns DatabaseClosed");
            n += 1;
        }
        assert!(unsafe { B_CALLS } == calls, "nothing reaches the backend after close()");
    }
    drop(cb);
    assert!(unsafe { B_CLOSE } == 1, "close() runs exactly once");
    assert!(unsafe { B_AFTER_CLOSE } == 0, "the backend is never touched after close()");
    kani::cover!(do_close, "explicit close");
    kani::cover!(!do_close, "closed by Drop");
}

// negative twin
// @harness props=C20 tier=quick timeout=600 mem=8 expect=fail
// @desc negative twin: claims close() is never called, must fail
// @functions Drop for CheckedBackend
// @bound -
#[kani::proof]
#[kani::unwind(6)]
fn c20_twin_close_must_fail() {
    let cb = CheckedBackend {
        file: Box::new(HBackend),
        io_failed: AtomicBool::new(false),
        closed: AtomicBool::new(false),
    };
    drop(cb);
    assert!(unsafe { B_CLOSE } == 0);
}
