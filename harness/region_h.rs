// Mounted under src/tree_store/page_store/region.rs as `mod verif_kani` (cfg(kani)).
// Struct-literal constructors for RegionTracker / Allocators and the region-tracker harnesses
// of C14.
#![allow(dead_code, unused_imports, unused_comparisons, clippy::all, clippy::pedantic)]

use super::*;

impl RegionTracker {
    pub(crate) fn verif_empty() -> Self {
        Self {
            order_trackers: alloc::vec::Vec::new(),
        }
    }
    pub(crate) fn verif_raw(order_trackers: alloc::vec::Vec<BtreeBitmap>) -> Self {
        Self { order_trackers }
    }
    pub(crate) fn verif_trackers(&self) -> &alloc::vec::Vec<BtreeBitmap> {
        &self.order_trackers
    }
}

// ---- C14: one step of the region tracker ----------------------------------------------------------
// The tracker is a vector of bitmaps, one per order, bit r of tracker[o] = "region r is known to
// have no free block of order >= o".  Decided here, on raw words and for every tracker state:
// mark_free(o, r) clears exactly the bits (k, r) for k <= o; mark_full(o, r) sets exactly the
// bits (k, r) for k >= o; find_free(o) returns the lowest region whose bit is clear at order o,
// or None when every region is marked.  Composition with the allocator steps (DESIGN.md C14):
//  * free path: `m = free(x, o)` changes no bitmap above m (c14_free_*), so "has a free block of
//    order >= k" is unchanged for k > m, and mark_free(m, r) clears every k <= m: invariant T kept;
//  * allocation path: alloc(o) == None only when the region has no aligned free run of order o
//    (c14_alloc_*), hence - by R - no free block of any order >= o, which is exactly what
//    mark_full(o, r) records: invariant T kept.  That allocate_helper_retry calls mark_full with
//    exactly (required order, refused region) is c14_retry_glue_* (page_manager.rs).

use crate::tree_store::page_store::bitmap::verif_kani as bmh;

const TR: u32 = 70; // regions tracked (two leaf words)
const TCAP: u32 = MAX_REGIONS; // the real padding capacity (4-level bitmaps)

fn tracker_bit(t: &RegionTracker, o: usize, r: u32) -> bool {
    let b = &t.order_trackers[o];
    b.verif_word(b.verif_height() - 1, (r / 64) as usize) & (1u64 << (r % 64)) != 0
}

fn leafw(t: &RegionTracker, o: usize, w: usize) -> u64 {
    let b = &t.order_trackers[o];
    b.verif_word(b.verif_height() - 1, w)
}

// @harness props=C14 tier=quick timeout=1800 mem=16 replay=native
// @desc one step of RegionTracker::{mark_free,mark_full,find_free} from ANY tracker state (3 orders x 70 regions, real 4-level padded bitmaps): mark_free(o,r) clears exactly bit r of the trackers of orders <= o, mark_full(o,r) sets exactly bit r of the trackers of orders >= o, every other bit is unchanged and the bitmaps' summary levels stay consistent; find_free(o) returns the lowest region not marked full at order o and None only when all are marked
// @functions RegionTracker::{mark_free,mark_full,find_free}, BtreeBitmap::{set,clear,find_first_unset,update_to_root}
// @bound 3 tracked orders (the real tracker has 21), 70 regions, padding capacity MAX_REGIONS; all tracker words, the operation, order and region arbitrary
#[kani::proof]
#[kani::unwind(66)]
fn c14_region_tracker_step() {
    let w: [[u64; 2]; 3] = [[kani::any(), kani::any()], [kani::any(), kani::any()], [kani::any(), kani::any()]];
    let mut t = RegionTracker::verif_raw(alloc::vec![
        bmh::mk_padded(TR, TCAP, &[w[0][0], w[0][1], u64::MAX]),
        bmh::mk_padded(TR, TCAP, &[w[1][0], w[1][1], u64::MAX]),
        bmh::mk_padded(TR, TCAP, &[w[2][0], w[2][1], u64::MAX]),
    ]);
    let before = [
        [leafw(&t, 0, 0), leafw(&t, 0, 1)],
        [leafw(&t, 1, 0), leafw(&t, 1, 1)],
        [leafw(&t, 2, 0), leafw(&t, 2, 1)],
    ];
    let op: u8 = kani::any();
    let o: u8 = kani::any();
    kani::assume(o <= 2);
    let r: u32 = kani::any();
    kani::assume(r < TR);
    let rw = (r / 64) as usize;
    let rm = 1u64 << (r % 64);
    match op {
        0 => {
            match o {
                0 => t.mark_free(0, r),
                1 => t.mark_free(1, r),
                _ => t.mark_free(2, r),
            }
            let mut k = 0usize;
            while k < 3 {
                let mut ww = 0usize;
                while ww < 2 {
                    let want = if k <= o as usize && ww == rw { before[k][ww] & !rm } else { before[k][ww] };
                    assert!(leafw(&t, k, ww) == want, "mark_free clears exactly (k <= o, r)");
                    ww += 1;
                }
                k += 1;
            }
            kani::cover!(o == 1 && before[2][rw] & rm != 0, "higher order stays marked full");
        }
        1 => {
            match o {
                0 => t.mark_full(0, r),
                1 => t.mark_full(1, r),
                _ => t.mark_full(2, r),
            }
            let mut k = 0usize;
            while k < 3 {
                let mut ww = 0usize;
                while ww < 2 {
                    let want = if k >= o as usize && ww == rw { before[k][ww] | rm } else { before[k][ww] };
                    assert!(leafw(&t, k, ww) == want, "mark_full sets exactly (k >= o, r)");
                    ww += 1;
                }
                k += 1;
            }
            kani::cover!(o == 1 && before[0][rw] & rm == 0, "lower order stays available");
        }
        _ => {
            let f = match o {
                0 => t.find_free(0),
                1 => t.find_free(1),
                _ => t.find_free(2),
            };
            let b0 = before[o as usize][0];
            let b1 = before[o as usize][1];
            match f {
                Some(x) => {
                    assert!(x < TR, "a tracked region");
                    assert!(!tracker_bit(&t, o as usize, x), "not marked full at this order");
                    if x >= 64 {
                        assert!(b0 == u64::MAX);
                        assert!(b1 & ((1u64 << (x - 64)) - 1) == (1u64 << (x - 64)) - 1, "lowest such region");
                    } else {
                        assert!(b0 & ((1u64 << x) - 1) == (1u64 << x) - 1, "lowest such region");
                    }
                    kani::cover!(x >= 64, "found in the second word");
                }
                None => {
                    assert!(b0 == u64::MAX && b1 == u64::MAX, "None only when every region is marked full");
                    kani::cover!(true, "all regions full");
                }
            }
        }
    }
    let mut k = 0usize;
    while k < 3 {
        assert!(bmh::summary_ok(&t.order_trackers[k], TR, TCAP), "summary levels consistent");
        k += 1;
    }
    core::mem::forget(t);
}

// ---- C14: Allocators::resize_to (regions dropped / added / resized when the file shrinks or grows) --

use crate::tree_store::page_store::buddy_allocator::verif_kani as bh;
use crate::tree_store::page_store::layout::RegionLayout;

fn tbit(t: &RegionTracker, o: usize, r: u32) -> bool {
    tracker_bit(t, o, r)
}

/// optimistic-tracker invariant T for region r with free set `free` and length n
fn t_ok(t: &RegionTracker, r: u32, free: u128, n: u32) -> bool {
    let mut ok = true;
    let mut o = 0u8;
    while o <= 4 {
        let mut has = false;
        let mut k = o;
        while k <= 4 {
            if bh::has_aligned_run(free, n, k) {
                has = true;
            }
            k += 1;
        }
        if has && tbit(t, o as usize, r) {
            ok = false;
        }
        o += 1;
    }
    ok
}

fn any_tracker3() -> RegionTracker {
    // 5 orders x 3 regions, every bit arbitrary
    let w: [u64; 5] = kani::any();
    RegionTracker::verif_raw(alloc::vec![
        bmh::mk_padded(3, TCAP, &[w[0], u64::MAX, u64::MAX]),
        bmh::mk_padded(3, TCAP, &[w[1], u64::MAX, u64::MAX]),
        bmh::mk_padded(3, TCAP, &[w[2], u64::MAX, u64::MAX]),
        bmh::mk_padded(3, TCAP, &[w[3], u64::MAX, u64::MAX]),
        bmh::mk_padded(3, TCAP, &[w[4], u64::MAX, u64::MAX]),
    ])
}

fn all_free16() -> BuddyAllocator {
    let mut w: bh::Words = [[u64::MAX; 2]; bh::MAXO];
    w[4][0] = !1u64;
    bh::mk_alloc(16, 16, &w)
}

fn tiny_free() -> BuddyAllocator {
    let mut w: bh::Words = [[u64::MAX; 2]; bh::MAXO];
    w[0][0] = !1u64;
    bh::mk_alloc(1, 1, &w)
}

fn full_layout(full: u32, trailing: Option<u32>) -> DatabaseLayout {
    DatabaseLayout::new(full, RegionLayout::new(16, 0, 512), trailing.map(|p| RegionLayout::new(p, 0, 512)))
}

/// shrink from three full regions to `keep_full` full regions plus an optional trailing region of
/// `trailing` pages: every dropped region is marked full at EVERY order in the tracker (so
/// find_free can never hand out a region that no longer exists), the surviving regions'
/// allocators and tracker bits are untouched, and the new last region is cut to its new length
fn resize_to_shrink_case(keep_full: u32, trailing: Option<u32>, symbolic_region0: bool) {
    let a0 = if symbolic_region0 {
        let w0 = bh::any_words();
        bh::mk_alloc(16, 16, &w0)
    } else {
        all_free16()
    };
    let pre0 = bh::r_inv(&a0, 16, 16);
    kani::assume(pre0.is_some());
    let pre0 = pre0.unwrap();
    let tracker = any_tracker3();
    let before: [u64; 5] = [leafw(&tracker, 0, 0), leafw(&tracker, 1, 0), leafw(&tracker, 2, 0), leafw(&tracker, 3, 0), leafw(&tracker, 4, 0)];
    // the regions that get dropped: full-size when region 0 is symbolic (they may be cut), and
    // one-page allocators otherwise (their drop glue is what CBMC spends its time on)
    let mut al = Allocators {
        region_tracker: tracker,
        region_allocators: if symbolic_region0 {
            alloc::vec![a0, all_free16(), all_free16()]
        } else {
            alloc::vec![a0, tiny_free(), tiny_free()]
        },
    };
    let new_layout = full_layout(keep_full, trailing);
    let new_regions = new_layout.num_regions();
    al.resize_to(new_layout);
    assert!(al.region_allocators.len() == new_regions as usize, "one allocator per remaining region");
    let mut r = 0u32;
    while r < 3 {
        let mut o = 0usize;
        while o < 5 {
            if r >= new_regions {
                assert!(tbit(&al.region_tracker, o, r), "a dropped region is marked full at every order");
            } else {
                assert!(tbit(&al.region_tracker, o, r) == (before[o] & (1u64 << r) != 0), "surviving regions keep their tracker bits");
            }
            o += 1;
        }
        r += 1;
    }
    assert!(bh::r_inv(&al.region_allocators[0], 16, 16) == Some(pre0), "region 0 is untouched");
    if let Some(p) = trailing {
        let last = &al.region_allocators[new_regions as usize - 1];
        let all: u128 = (1u128 << p) - 1;
        assert!(bh::r_inv(last, p, 16) == Some(all), "the new last region is cut to its new length, all of it free");
    }
    kani::cover!(before[2] & 0b110 == 0, "the dropped regions were advertised as free before");
    core::mem::forget(al);
}

/// grow from one region of 11 pages to one full region plus a new trailing region of 7 pages:
/// old pages keep their state, the tracker stays optimistic (T) for both regions
fn resize_to_grow_case() {
    let w0 = bh::any_words();
    let a0 = bh::mk_alloc(11, 16, &w0);
    let pre0 = bh::r_inv(&a0, 11, 16);
    kani::assume(pre0.is_some());
    let pre0 = pre0.unwrap();
    let tracker = any_tracker3();
    kani::assume(t_ok(&tracker, 0, pre0, 11));
    let mut al = Allocators {
        region_tracker: tracker,
        region_allocators: alloc::vec![a0],
    };
    al.resize_to(full_layout(1, Some(7)));
    assert!(al.region_allocators.len() == 2);
    let p0 = bh::r_inv(&al.region_allocators[0], 16, 16);
    assert!(p0 == Some(pre0 | (0x1Fu128 << 11)), "old pages keep their state, pages 11..16 are free");
    let p1 = bh::r_inv(&al.region_allocators[1], 7, 16);
    assert!(p1 == Some(0x7F), "the new region is entirely free");
    assert!(t_ok(&al.region_tracker, 0, p0.unwrap(), 16), "the grown region is not reported full at any order it can serve");
    assert!(t_ok(&al.region_tracker, 1, 0x7F, 7), "the new region is not reported full at any order it can serve");
    kani::cover!(pre0 == 0, "grown from a full region");
    core::mem::forget(al);
}

// @harness props=C14 tier=thorough timeout=3600 mem=24 replay=native attempt=1
// @desc Allocators::resize_to when the file shrinks from three entirely free regions to one, with ANY tracker state: every dropped region is marked full at every order of the region tracker (find_free can never return a region that no longer exists), the surviving region keeps its allocator state and tracker bits, and the allocator list matches the new layout
// @functions Allocators::resize_to, RegionTracker::mark_full, BuddyAllocator::len, DatabaseLayout::{num_regions,trailing_region_layout,full_region_layout}
// @bound three entirely free regions (16, 1 and 1 pages) -> 1 region; all tracker bits (5 orders x 3 regions, real 4-level shape) arbitrary
#[kani::proof]
#[kani::unwind(20)]
fn c14_resize_to_drop_regions_tracker() {
    resize_to_shrink_case(1, None, false);
}

// @harness props=C14 tier=thorough timeout=3600 mem=32 replay=native attempt=1
// @desc (attempted: not closed in 1500 s) Allocators::resize_to when the file shrinks from three full regions (region 0 in ANY valid allocator state, ANY tracker state): every dropped region is marked full at every order of the region tracker - find_free can never return a region that no longer exists - surviving regions keep allocator state and tracker bits, the allocator list matches the new layout, and a new trailing region is cut to its length
// @functions Allocators::resize_to, RegionTracker::mark_full, BuddyAllocator::{resize,len}, DatabaseLayout::{num_regions,trailing_region_layout,full_region_layout}
// @bound three 16-page regions (capacity 16) -> 1 region, or -> 1 full + trailing 5 pages; region 0 allocator words and all tracker bits (5 orders x 3 regions, real 4-level shape) arbitrary; regions 1, 2 entirely free
// @assumes region 0 satisfies R
#[kani::proof]
#[kani::unwind(20)]
fn c14_resize_to_drop_two_regions() {
    resize_to_shrink_case(1, None, true);
}

// @harness props=C14 tier=thorough timeout=3600 mem=32 replay=native attempt=1
// @desc (attempted: not closed in 1500 s) as c14_resize_to_drop_two_regions, shrinking to one full region plus a trailing region of 5 pages (one region dropped, the next cut from 16 to 5 pages)
// @functions Allocators::resize_to, RegionTracker::mark_full, BuddyAllocator::{resize,record_alloc_inner}
// @bound three 16-page regions -> 1 full + trailing 5 pages
// @assumes region 0 satisfies R
#[kani::proof]
#[kani::unwind(20)]
fn c14_resize_to_drop_one_cut_one() {
    resize_to_shrink_case(1, Some(5), true);
}

// @harness props=C14 tier=thorough timeout=3600 mem=32 replay=native attempt=1
// @desc (attempted: not closed in 2400 s) Allocators::resize_to when the file grows from one region of 11 pages (ANY valid allocator state, ANY tracker state consistent with T) to a full region plus a new trailing region of 7 pages: old pages keep their state, the added pages and the new region are free, and the tracker reports neither region full at any order it can serve
// @functions Allocators::resize_to, BuddyAllocator::{new,resize,highest_free_order}, RegionTracker::{mark_free,resize,len}
// @bound 11 -> 16 pages + new region of 7 pages, capacity 16; allocator words and tracker bits arbitrary
// @assumes region 0 satisfies R and the tracker satisfies T for it
#[kani::proof]
#[kani::unwind(20)]
fn c14_resize_to_grow() {
    resize_to_grow_case();
}
