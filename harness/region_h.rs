// Mounted under src/tree_store/page_store/region.rs as `mod verif_kani` (cfg(kani)).
// Struct-literal constructors for RegionTracker / Allocators and the region-tracker harnesses
// of C14.
#![allow(dead_code, unused_imports, unused_comparisons, clippy::all, clippy::pedantic)]

use super::*;

impl RegionTracker {
    pub(crate) fn verif_empty() -> Self {
        Self {
            order_trackers: alloc::vec::Vec::new(),
        }
    }
    pub(crate) fn verif_raw(order_trackers: alloc::vec::Vec<BtreeBitmap>) -> Self {
        Self { order_trackers }
    }
    pub(crate) fn verif_trackers(&self) -> &alloc::vec::Vec<BtreeBitmap> {
        &self.order_trackers
    }
}
