// Mounted under src/tree_store/page_store/region.rs as `mod verif_kani` (cfg(kani)).
// Struct-literal constructors for RegionTracker / Allocators and the region-tracker harnesses
// of C14.
#![allow(dead_code, unused_imports, unused_comparisons, clippy::all, clippy::pedantic)]

use super::*;

impl RegionTracker {
    pub(crate) fn verif_empty() -> Self {
        Self {
            order_trackers: alloc::vec::Vec::new(),
        }
    }
    pub(crate) fn verif_raw(order_trackers: alloc::vec::Vec<BtreeBitmap>) -> Self {
        Self { order_trackers }
    }
    pub(crate) fn verif_trackers(&self) -> &alloc::vec::Vec<BtreeBitmap> {
        &self.order_trackers
    }
}

// ---- C14: one step of the region tracker ----------------------------------------------------------
// The tracker is a vector of bitmaps, one per order, bit r of tracker[o] = "region r is known to
// have no free block of order >= o".  Decided here, on raw words and for every tracker state:
// mark_free(o, r) clears exactly the bits (k, r) for k <= o; mark_full(o, r) sets exactly the
// bits (k, r) for k >= o; find_free(o) returns the lowest region whose bit is clear at order o,
// or None when every region is marked.  Composition with the allocator steps (DESIGN.md C14):
//  * free path: `m = free(x, o)` changes no bitmap above m (c14_free_*), so "has a free block of
//    order >= k" is unchanged for k > m, and mark_free(m, r) clears every k <= m: invariant T kept;
//  * allocation path: alloc(o) == None only when the region has no aligned free run of order o
//    (c14_alloc_*), hence - by R - no free block of any order >= o, which is exactly what
//    mark_full(o, r) records: invariant T kept.  That allocate_helper_retry calls mark_full with
//    exactly (required order, refused region) is c14_retry_glue_* (page_manager.rs).

use crate::tree_store::page_store::bitmap::verif_kani as bmh;

const TR: u32 = 70; // regions tracked (two leaf words)
const TCAP: u32 = MAX_REGIONS; // the real padding capacity (4-level bitmaps)

fn tracker_bit(t: &RegionTracker, o: usize, r: u32) -> bool {
    let b = &t.order_trackers[o];
    b.verif_word(b.verif_height() - 1, (r / 64) as usize) & (1u64 << (r % 64)) != 0
}

fn leafw(t: &RegionTracker, o: usize, w: usize) -> u64 {
    let b = &t.order_trackers[o];
    b.verif_word(b.verif_height() - 1, w)
}

// @harness props=C14 tier=quick timeout=1800 mem=16 replay=native
// @desc one step of RegionTracker::{mark_free,mark_full,find_free} from ANY tracker state (3 orders x 70 regions, real 4-level padded bitmaps): mark_free(o,r) clears exactly bit r of the trackers of orders <= o, mark_full(o,r) sets exactly bit r of the trackers of orders >= o, every other bit is unchanged and the bitmaps' summary levels stay consistent; find_free(o) returns the lowest region not marked full at order o and None only when all are marked
// @functions RegionTracker::{mark_free,mark_full,find_free}, BtreeBitmap::{set,clear,find_first_unset,update_to_root}
// @bound 3 tracked orders (the real tracker has 21), 70 regions, padding capacity MAX_REGIONS; all tracker words, the operation, order and region arbitrary
#[kani::proof]
#[kani::unwind(66)]
fn c14_region_tracker_step() {
    let w: [[u64; 2]; 3] = [[kani::any(), kani::any()], [kani::any(), kani::any()], [kani::any(), kani::any()]];
    let mut t = RegionTracker::verif_raw(alloc::vec![
        bmh::mk_padded(TR, TCAP, &[w[0][0], w[0][1], u64::MAX]),
        bmh::mk_padded(TR, TCAP, &[w[1][0], w[1][1], u64::MAX]),
        bmh::mk_padded(TR, TCAP, &[w[2][0], w[2][1], u64::MAX]),
    ]);
    let before = [
        [leafw(&t, 0, 0), leafw(&t, 0, 1)],
        [leafw(&t, 1, 0), leafw(&t, 1, 1)],
        [leafw(&t, 2, 0), leafw(&t, 2, 1)],
    ];
    let op: u8 = kani::any();
    let o: u8 = kani::any();
    kani::assume(o <= 2);
    let r: u32 = kani::any();
    kani::assume(r < TR);
    let rw = (r / 64) as usize;
    let rm = 1u64 << (r % 64);
    match op {
        0 => {
            match o {
                0 => t.mark_free(0, r),
                1 => t.mark_free(1, r),
                _ => t.mark_free(2, r),
            }
            let mut k = 0usize;
            while k < 3 {
                let mut ww = 0usize;
                while ww < 2 {
                    let want = if k <= o as usize && ww == rw { before[k][ww] & !rm } else { before[k][ww] };
                    assert!(leafw(&t, k, ww) == want, "mark_free clears exactly (k <= o, r)");
                    ww += 1;
                }
                k += 1;
            }
            kani::cover!(o == 1 && before[2][rw] & rm != 0, "higher order stays marked full");
        }
        1 => {
            match o {
                0 => t.mark_full(0, r),
                1 => t.mark_full(1, r),
                _ => t.mark_full(2, r),
            }
            let mut k = 0usize;
            while k < 3 {
                let mut ww = 0usize;
                while ww < 2 {
                    let want = if k >= o as usize && ww == rw { before[k][ww] | rm } else { before[k][ww] };
                    assert!(leafw(&t, k, ww) == want, "mark_full sets exactly (k >= o, r)");
                    ww += 1;
                }
                k += 1;
            }
            kani::cover!(o == 1 && before[0][rw] & rm == 0, "lower order stays available");
        }
        _ => {
            let f = match o {
                0 => t.find_free(0),
                1 => t.find_free(1),
                _ => t.find_free(2),
            };
            let b0 = before[o as usize][0];
            let b1 = before[o as usize][1];
            match f {
                Some(x) => {
                    assert!(x < TR, "a tracked region");
                    assert!(!tracker_bit(&t, o as usize, x), "not marked full at this order");
                    if x >= 64 {
                        assert!(b0 == u64::MAX);
                        assert!(b1 & ((1u64 << (x - 64)) - 1) == (1u64 << (x - 64)) - 1, "lowest such region");
                    } else {
                        assert!(b0 & ((1u64 << x) - 1) == (1u64 << x) - 1, "lowest such region");
                    }
                    kani::cover!(x >= 64, "found in the second word");
                }
                None => {
                    assert!(b0 == u64::MAX && b1 == u64::MAX, "None only when every region is marked full");
                    kani::cover!(true, "all regions full");
                }
            }
        }
    }
    let mut k = 0usize;
    while k < 3 {
        assert!(bmh::summary_ok(&t.order_trackers[k], TR, TCAP), "summary levels consistent");
        k += 1;
    }
    core::mem::forget(t);
}
