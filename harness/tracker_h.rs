// Mounted under src/transaction_tracker.rs as `mod verif_kani` (cfg(kani)).
// C03: single write slot, transaction-id monotonicity, deferred-close hand-off. Only the
// Option/counter half of the tracker is in reach (its BTreeMap half is not, DESIGN.md P18).
#![allow(dead_code, unused_imports, unused_comparisons, static_mut_refs, clippy::all, clippy::pedantic)]

use super::*;
use std::sync::{Condvar as StdCondvar, LockResult, MutexGuard as StdGuard};

static mut NOTIFIED: u32 = 0;

// A thread that reaches Condvar::wait is blocked: its path ends here (Kani has no threads, and
// the futex syscall behind the real wait is not modelled).  The cover point is the witness
// that a second writer really blocks.
fn stub_wait<'a, T>(_cv: &StdCondvar, guard: StdGuard<'a, T>) -> LockResult<StdGuard<'a, T>> {
    kani::cover!(true, "a second writer blocks in Condvar::wait while the first is live");
    kani::assume(false);
    Ok(guard)
}

fn stub_notify_one(_cv: &StdCondvar) {
    unsafe {
        NOTIFIED += 1;
    }
}

// @harness props=C03,C01 tier=quick timeout=900 mem=12 stubbing=1 replay=none
// @desc write slot and id discipline of TransactionTracker from an arbitrary starting id: start_write_transaction returns the successor of the last id and occupies the slot; a second start while the slot is occupied never returns (it blocks in Condvar::wait); end_write_transaction frees the slot, wakes exactly one waiter and returns no deferred close; ids handed out are strictly increasing across transactions, also after reserve_transaction_id (an extra id consumed by the live transaction) and reserve_repair_transaction_id (a repair commit's id is never issued again)
// @functions TransactionTracker::{new,start_write_transaction,end_write_transaction,reserve_transaction_id,reserve_repair_transaction_id}, TransactionId::{next,increment}
// @bound three consecutive write transactions; starting id and the repair id arbitrary (below u64::MAX - 16)
// @stubs std::sync::Condvar::wait -> blocked path ends (assume(false)) with a cover witness; Condvar::notify_one -> counter
// @assumes a blocked thread makes no progress until notified (Condvar contract)
#[kani::proof]
#[kani::unwind(4)]
#[kani::stub(std::sync::Condvar::wait, stub_wait)]
#[kani::stub(std::sync::Condvar::notify_one, stub_notify_one)]
fn c03_single_writer_and_ids() {
    let id0: u64 = kani::any();
    kani::assume(id0 < u64::MAX - 16);
    let tr = TransactionTracker::new(TransactionId::new(id0));
    let t1 = tr.start_write_transaction();
    assert!(t1.raw_id() == id0 + 1, "first id is the successor of the starting id");
    assert!(tr.state.lock().unwrap().live_write_transaction == Some(t1), "slot occupied");
    let second: bool = kani::any();
    if second {
        // a second begin_write while the first is live must block
        let _t = tr.start_write_transaction();
        assert!(false, "second writer admitted while the first is live");
    }
    // the live transaction may consume an extra id (post-commit epilogue)
    let extra: bool = kani::any();
    if extra {
        tr.reserve_transaction_id(t1.next(), t1);
    }
    let closed = tr.end_write_transaction(t1);
    assert!(closed.is_none(), "no deferred close without a dropped Database");
    assert!(unsafe { NOTIFIED } == 1, "exactly one waiter is woken");
    assert!(tr.state.lock().unwrap().live_write_transaction.is_none(), "slot released");
    // repair commit reserves an id while no writer is live
    let rid: u64 = kani::any();
    kani::assume(rid < u64::MAX - 8);
    let repair: bool = kani::any();
    if repair {
        tr.reserve_repair_transaction_id(TransactionId::new(rid));
    }
    let t2 = tr.start_write_transaction();
    assert!(t2 > t1, "ids strictly increase");
    if extra {
        assert!(t2.raw_id() > t1.raw_id() + 1, "the extra id consumed by the first transaction is never reissued");
    }
    if repair {
        assert!(t2.raw_id() > rid, "a repair commit's id is never reissued");
    }
    let _ = tr.end_write_transaction(t2);
    let t3 = tr.start_write_transaction();
    assert!(t3.raw_id() == t2.raw_id() + 1);
    kani::cover!(repair && rid > id0 + 5, "repair id moved the counter forward");
    core::mem::forget(tr);
}

// @harness props=C03,C20 tier=quick timeout=1800 mem=16 stubbing=1 replay=scenario:close optcover=blocks
// @desc deferred close hand-off between Database drop (defer_close_if_write_transaction_live) and the end of the live write transaction (end_write_transaction), in both orders, with and without a live writer: exactly one side ends up owning the close - with a live writer the drop defers (returns true) and the writer's end returns the memory to close; without one the drop keeps the close (returns false) and a later end returns nothing
// @functions TransactionTracker::{defer_close_if_write_transaction_live,end_write_transaction,start_write_transaction}
// @bound one writer, one Database drop, both interleavings of the two critical sections
// @stubs std::sync::Condvar::{wait,notify_one} as in c03_single_writer_and_ids
// @assumes mutex-protected sections are atomic (the check and the hand-off share the state lock)
#[kani::proof]
#[kani::unwind(4)]
#[kani::stub(std::sync::Condvar::wait, stub_wait)]
#[kani::stub(std::sync::Condvar::notify_one, stub_notify_one)]
fn c03_deferred_close_handoff() {
    let tr = TransactionTracker::new(TransactionId::new(7));
    let mem = Arc::new(crate::tree_store::verif_literal_mem());
    let writer_live: bool = kani::any();
    let drop_first: bool = kani::any();
    let mut db_owns_close = false;
    let mut writer_owns_close = false;
    if writer_live {
        let t = tr.start_write_transaction();
        if drop_first {
            let deferred = tr.defer_close_if_write_transaction_live(&mem);
            db_owns_close = !deferred;
            let handed = tr.end_write_transaction(t);
            writer_owns_close = handed.is_some();
            core::mem::forget(handed);
        } else {
            let handed = tr.end_write_transaction(t);
            writer_owns_close = handed.is_some();
            core::mem::forget(handed);
            let deferred = tr.defer_close_if_write_transaction_live(&mem);
            db_owns_close = !deferred;
        }
    } else {
        let deferred = tr.defer_close_if_write_transaction_live(&mem);
        db_owns_close = !deferred;
    }
    assert!(db_owns_close != writer_owns_close, "exactly one side owns the close");
    if writer_live && drop_first {
        assert!(writer_owns_close, "a live writer keeps the database open and closes it when it ends");
    }
    kani::cover!(writer_owns_close, "close deferred to the writer");
    kani::cover!(db_owns_close && writer_live, "writer ended first, Database drop closes");
    core::mem::forget(mem);
    core::mem::forget(tr);
}
