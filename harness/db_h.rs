// Mounted under src/db.rs as `mod verif_kani` (cfg(kani)).
// C20 / C03: Database drop against a live write transaction - the backend is closed exactly once,
// by exactly one side, in both drop orders, with and without a latched storage failure.
#![allow(dead_code, unused_imports, unused_comparisons, static_mut_refs, clippy::all, clippy::pedantic)]

use super::*;
use crate::tree_store::verif_backend_counters as counters;
use std::sync::{Condvar as StdCondvar, LockResult, MutexGuard as StdGuard};

static mut ENSURE_CALLS: u32 = 0;

// The shutdown commit (a whole write transaction) is outside the engine's reach; it is
// replaced by a stub that does nothing and succeeds or fails nondeterministically.
fn stub_ensure(_t: &Arc<TransactionTracker>, _m: &Arc<TransactionalMemory>) -> Result<(), Error> {
    unsafe {
        ENSURE_CALLS += 1;
    }
    if kani::any() { Ok(()) } else { Err(Error::PreviousIo) }
}

fn stub_wait<'a, T>(_cv: &StdCondvar, guard: StdGuard<'a, T>) -> LockResult<StdGuard<'a, T>> {
    kani::assume(false);
    Ok(guard)
}

fn stub_notify_one(_cv: &StdCondvar) {}

fn not_panicking() -> bool {
    false
}

// No Arc is ever released in these harnesses (every handle is forgotten at the end); cutting the
// deallocation path keeps CBMC from exploring the drop glue of TransactionalMemory and of the
// tracker's maps behind a reference count it cannot resolve.
fn stub_arc_drop_slow<T: ?Sized, A: core::alloc::Allocator>(_this: &mut Arc<T, A>) {
    kani::assume(false);
}

fn no_format(_args: core::fmt::Arguments<'_>) -> alloc::string::String {
    alloc::string::String::new()
}

fn drop_case(writer_live: bool, db_first: bool) {
    // the two flags are inputs of the query, but each path runs on a fully concrete state (the
    // whole body sits inside each arm): a flag stored symbolically inside the Arc'ed
    // TransactionalMemory makes every later read through the Arc opaque to CBMC
    let failure: bool = kani::any();
    let needs_repair: bool = kani::any();
    match (failure, needs_repair) {
        (false, false) => drop_case_on(writer_live, db_first, false, false),
        (false, true) => drop_case_on(writer_live, db_first, false, true),
        (true, false) => drop_case_on(writer_live, db_first, true, false),
        (true, true) => drop_case_on(writer_live, db_first, true, true),
    }
}

fn drop_case_on(writer_live: bool, db_first: bool, failure: bool, needs_repair: bool) {
    let mem = Arc::new(crate::tree_store::verif_literal_mem_concrete());
    crate::tree_store::verif_set_cur_mem(&mem);
    let tracker = Arc::new(TransactionTracker::new(TransactionId::new(3)));
    let guard = if writer_live {
        Some(TransactionGuard::new_write(tracker.start_write_transaction(), tracker.clone()))
    } else {
        None
    };
    if failure {
        mem.verif_latch_failure();
    }
    if needs_repair {
        mem.mark_needs_repair();
    }
    let db = Database {
        mem: mem.clone(),
        transaction_tracker: tracker.clone(),
    };
    if db_first {
        drop(db);
        if writer_live {
            assert!(counters().0 == 0, "backend stays open while the write transaction is live");
        }
        drop(guard);
    } else {
        drop(guard);
        assert!(counters().0 == 0, "ending the write transaction does not close a database that is still open");
        drop(db);
    }
    let (closes, after_close) = counters();
    assert!(closes == 1, "close() exactly once");
    assert!(after_close == 0, "nothing touches the backend after close()");
    assert!(unsafe { ENSURE_CALLS } <= 1, "shutdown commit attempted at most once");
    if needs_repair {
        assert!(unsafe { ENSURE_CALLS } == 0, "no allocator state is saved when it needs repair");
    }
    kani::cover!(failure, "with a latched storage failure");
    kani::cover!(!failure && !needs_repair, "healthy shutdown");
    core::mem::forget(mem);
    core::mem::forget(tracker);
}

macro_rules! drop_harness {
    ($name:ident, $live:expr, $first:expr) => {
        #[kani::proof]
        #[kani::unwind(22)]
        #[kani::stub(ensure_allocator_state_table_and_trim, stub_ensure)]
        #[kani::stub(TransactionalMemory::write_header, crate::tree_store::page_store::page_manager::verif_kani::stub_write_header)]
        #[kani::stub(crate::tree_store::page_store::cached_file::PagedCachedFile::flush, crate::tree_store::page_store::page_manager::verif_kani::stub_flush)]
        #[kani::stub(std::sync::Condvar::wait, stub_wait)]
        #[kani::stub(std::sync::Condvar::notify_one, stub_notify_one)]
        #[kani::stub(crate::panicking, not_panicking)]
        #[kani::stub(alloc::fmt::format, no_format)]
        #[kani::stub(alloc::sync::Arc::drop_slow, stub_arc_drop_slow)]
        fn $name() {
            drop_case($live, $first);
        }
    };
}

// @harness props=C20,C03,C08 tier=thorough timeout=3600 mem=40 stubbing=1 replay=scenario:close flavor=nodebug attempt=1
// @desc (attempted: the single harness over all four booleans did not close in 2400 s) Database drop against a write transaction, in the named drop order (db_first / guard_first) with the named writer state, with/without a latched storage failure, with/without needs_repair: after both handles are gone the backend's close() has run EXACTLY once and nothing touched the backend afterwards; while the write transaction is still live after the Database was dropped the backend is NOT yet closed; the shutdown commit is attempted at most once and never when needs_repair is set
// @functions Drop for Database, Drop for TransactionGuard, close_database, TransactionTracker::{defer_close_if_write_transaction_live,end_write_transaction,start_write_transaction}, TransactionalMemory::{close,flush_shutdown_header,needs_repair,storage_failure}, PagedCachedFile::{close,check_io_errors}, CheckedBackend::{close,check_failure}
// @bound one Database handle, at most one write transaction guard; drop order and writer presence fixed per harness, failure and needs_repair arbitrary
// @stubs ensure_allocator_state_table_and_trim -> no-op returning Ok/Err; TransactionalMemory::write_header, PagedCachedFile::flush -> event log; Condvar::{wait,notify_one}; crate::panicking -> false; alloc::fmt::format -> empty
drop_harness!(c20_database_drop_live_db_first, true, true);
drop_harness!(c20_database_drop_live_guard_first, true, false);
drop_harness!(c20_database_drop_no_writer, false, true);

// ---- C01: the repair decision (Database::do_repair) ----------------------------------------------

static mut VERIFIES: [bool; 2] = [false; 2];
static mut VERIFY_CALLS: u32 = 0;
static mut REBUILD_CALLS: u32 = 0;
static mut PRIMARY_AT_REBUILD: usize = 9;

// Oracle V (DESIGN.md section 4): whether the tree under the CURRENT primary slot verifies is a
// fixed, arbitrary property of each slot (a torn or half-written commit does not verify).
fn stub_verify_primary(mem: Arc<TransactionalMemory>) -> Result<bool, StorageError> {
    let idx = mem.verif_primary_index();
    core::mem::forget(mem);
    unsafe {
        VERIFY_CALLS += 1;
        Ok(VERIFIES[idx])
    }
}

fn stub_rebuild(
    mem: &mut Arc<TransactionalMemory>,
    _cb: &(dyn Fn(&mut RepairSession) + 'static),
) -> Result<[Option<BtreeHeader>; 2], DatabaseError> {
    unsafe {
        REBUILD_CALLS += 1;
        PRIMARY_AT_REBUILD = mem.verif_primary_index();
    }
    Ok([None, None])
}

fn no_callback(_s: &mut RepairSession) {}

// @harness props=C01,C12 tier=thorough timeout=3600 mem=40 stubbing=1 flavor=nodebug replay=scenario:crash attempt=1
// @desc (attempted: did not close in 1800 s in the quick tier) Database::do_repair for every recovered header state and every answer of the tree-verification oracle: it ends on a slot that verifies; it falls back to the secondary exactly when the primary does not verify and the 2PC flag is clear; a primary that does not verify under the 2PC flag, or two slots that do not verify, yield an error WITHOUT any header write (so the recovery flag stays set); the allocator state is rebuilt from the slot that verified; recovery_required is cleared only after that, by exactly one header write followed by one flush
// @functions Database::{do_repair,primary_verifies}, TransactionalMemory::{repair_primary_corrupted,used_two_phase_commit,clear_recovery_required,clear_read_cache}, DatabaseHeader::swap_primary_slot
// @bound header with two arbitrary valid slots, primary index, 2PC flag and the oracle's answer per slot arbitrary
// @stubs Database::verify_primary_checksums -> oracle V; Database::rebuild_allocator_state -> records the primary index; TransactionalMemory::write_header, PagedCachedFile::flush -> event log; xxh3_checksum -> uninterpreted; alloc::fmt::format -> empty
// @assumes A-MERKLE (a commit whose pages are not all durable does not verify), modelled by the oracle
#[kani::proof]
#[kani::unwind(22)]
#[kani::stub(Database::verify_primary_checksums, stub_verify_primary)]
#[kani::stub(Database::rebuild_allocator_state, stub_rebuild)]
#[kani::stub(TransactionalMemory::write_header, crate::tree_store::page_store::page_manager::verif_kani::stub_write_header)]
#[kani::stub(crate::tree_store::page_store::cached_file::PagedCachedFile::flush, crate::tree_store::page_store::page_manager::verif_kani::stub_flush)]
#[kani::stub(crate::tree_store::page_store::page_manager::xxh3_checksum, crate::tree_store::page_store::header::verif_kani::uf_checksum)]
#[kani::stub(alloc::fmt::format, no_format)]
fn c01_repair_decision() {
    let mut mem = Arc::new(crate::tree_store::verif_literal_mem());
    crate::tree_store::verif_set_cur_mem(&mem);
    let two_phase: bool = kani::any();
    mem.verif_set_two_phase(two_phase);
    unsafe {
        VERIFIES = [kani::any(), kani::any()];
    }
    let p0 = mem.verif_primary_index();
    let v = unsafe { VERIFIES };
    let r = Database::do_repair(&mut mem, &no_callback);
    let (n, kinds) = crate::tree_store::verif_events();
    let p1 = mem.verif_primary_index();
    let (recovery_required, _) = mem.verif_flags();
    match &r {
        Ok(_) => {
            assert!(v[p1], "repair ends on a slot whose tree verifies");
            assert!((p1 != p0) == (!v[p0] && !two_phase), "falls back exactly when the primary does not verify and the 2PC flag is clear");
            assert!(unsafe { REBUILD_CALLS } == 1 && unsafe { PRIMARY_AT_REBUILD } == p1, "allocator rebuilt from the verified slot");
            assert!(n == 2 && kinds[0] == 1 && kinds[1] == 2, "flag cleared by one header write followed by one flush");
            assert!(crate::tree_store::verif_image_god_byte(0) & 2 == 0 && !recovery_required);
            assert!(crate::tree_store::verif_image_god_byte(0) & 1 == p1 as u8, "the written header names the verified slot");
            kani::cover!(p1 != p0, "fell back to the secondary");
            kani::cover!(p1 == p0, "primary verified");
        }
        Err(_) => {
            assert!(!v[p0] && (two_phase || !v[p0 ^ 1]), "error only if nothing usable verifies");
            assert!(n == 0, "no header write on a failed repair");
            assert!(recovery_required, "the recovery flag stays set");
            assert!(unsafe { REBUILD_CALLS } == 0);
            kani::cover!(two_phase, "corrupt primary under the 2PC flag is an error");
        }
    }
    core::mem::forget(r);
    core::mem::forget(mem);
}

// ---- the same decision on fully concrete state (closes: see DESIGN.md 9.1 on Arc and constants) ----

fn repair_case(p: usize) {
    // the 2PC flag is an input of the query, dispatched so that each path runs on concrete state
    if kani::any() {
        repair_case_on(p, true);
    } else {
        repair_case_on(p, false);
    }
}

fn repair_case_on(p: usize, two_phase: bool) {
    let mut mem = Arc::new(crate::tree_store::verif_literal_mem_concrete());
    crate::tree_store::verif_set_cur_mem(&mem);
    mem.verif_set_primary(p);
    mem.verif_set_two_phase(two_phase);
    unsafe {
        VERIFIES = [kani::any(), kani::any()];
    }
    let p0 = mem.verif_primary_index();
    let v = unsafe { VERIFIES };
    let r = Database::do_repair(&mut mem, &no_callback);
    let (n, kinds) = crate::tree_store::verif_events();
    let p1 = mem.verif_primary_index();
    let (recovery_required, _) = mem.verif_flags();
    match &r {
        Ok(_) => {
            assert!(v[p1], "repair ends on a slot whose tree verifies");
            assert!((p1 != p0) == (!v[p0] && !two_phase), "falls back exactly when the primary does not verify and the 2PC flag is clear");
            assert!(unsafe { REBUILD_CALLS } == 1 && unsafe { PRIMARY_AT_REBUILD } == p1, "allocator rebuilt from the verified slot");
            assert!(n == 2 && kinds[0] == 1 && kinds[1] == 2, "flag cleared by one header write followed by one flush");
            assert!(crate::tree_store::verif_image_god_byte(0) & 2 == 0 && !recovery_required);
            assert!(crate::tree_store::verif_image_god_byte(0) & 1 == p1 as u8, "the written header names the verified slot");
            kani::cover!(p1 != p0, "fell back to the secondary");
            kani::cover!(p1 == p0, "primary verified");
        }
        Err(_) => {
            assert!(!v[p0] && (two_phase || !v[p0 ^ 1]), "error only if nothing usable verifies");
            assert!(n == 0, "no header write on a failed repair");
            assert!(recovery_required, "the recovery flag stays set");
            assert!(unsafe { REBUILD_CALLS } == 0);
            kani::cover!(two_phase, "corrupt primary under the 2PC flag is an error");
        }
    }
    core::mem::forget(r);
    core::mem::forget(mem);
}

macro_rules! repair_harness {
    ($name:ident, $p:expr) => {
        #[kani::proof]
        #[kani::unwind(22)]
        #[kani::stub(Database::verify_primary_checksums, stub_verify_primary)]
        #[kani::stub(Database::rebuild_allocator_state, stub_rebuild)]
        #[kani::stub(TransactionalMemory::write_header, crate::tree_store::page_store::page_manager::verif_kani::stub_write_header)]
        #[kani::stub(crate::tree_store::page_store::cached_file::PagedCachedFile::flush, crate::tree_store::page_store::page_manager::verif_kani::stub_flush)]
        #[kani::stub(crate::tree_store::page_store::page_manager::xxh3_checksum, crate::tree_store::page_store::header::verif_kani::uf_checksum)]
        #[kani::stub(alloc::fmt::format, no_format)]
        #[kani::stub(alloc::sync::Arc::drop_slow, stub_arc_drop_slow)]
        fn $name() {
            repair_case($p);
        }
    };
}

// @harness props=C01,C12 tier=thorough timeout=3600 mem=32 stubbing=1 flavor=nodebug replay=scenario:crash attempt=1
// @desc Database::do_repair on a concrete header (primary index as named) for both values of the 2PC flag and EVERY answer of the tree-verification oracle for the two slots: it ends on a slot that verifies; it falls back to the secondary exactly when the primary does not verify and the 2PC flag is clear; a primary that does not verify under the 2PC flag, or two slots that do not verify, yield an error WITHOUT any header write (the recovery flag stays set); the allocator state is rebuilt from the slot that verified; recovery_required is cleared only after that, by exactly one header write followed by one flush
// @functions Database::{do_repair,primary_verifies}, TransactionalMemory::{repair_primary_corrupted,used_two_phase_commit,clear_recovery_required,clear_read_cache}, DatabaseHeader::swap_primary_slot
// @bound concrete two-slot header (contents play no role in the decision), primary index fixed per harness, 2PC flag and the oracle's answer per slot arbitrary
// @stubs Database::verify_primary_checksums -> oracle V; Database::rebuild_allocator_state -> records the primary index; TransactionalMemory::write_header, PagedCachedFile::flush -> event log; xxh3_checksum -> uninterpreted; alloc::fmt::format -> empty; Arc::drop_slow -> path ends
// @assumes A-MERKLE (a commit whose pages are not all durable does not verify), modelled by the oracle
repair_harness!(c01_repair_decision_concrete_p0, 0);
repair_harness!(c01_repair_decision_concrete_p1, 1);
