// Mounted under src/db.rs as `mod verif_kani` (cfg(kani)).
// C20 / C03: Database drop against a live write transaction - the backend is closed exactly once,
// by exactly one side, in both drop orders, with and without a latched storage failure.
#![allow(dead_code, unused_imports, unused_comparisons, static_mut_refs, clippy::all, clippy::pedantic)]

use super::*;
use crate::tree_store::verif_backend_counters as counters;
use std::sync::{Condvar as StdCondvar, LockResult, MutexGuard as StdGuard};

static mut ENSURE_CALLS: u32 = 0;

// The shutdown commit (a whole write transaction) is outside the engine's reach; it is
// replaced by a stub that does nothing and succeeds or fails nondeterministically.
fn stub_ensure(_t: &Arc<TransactionTracker>, _m: &Arc<TransactionalMemory>) -> Result<(), Error> {
    unsafe {
        ENSURE_CALLS += 1;
    }
    if kani::any() { Ok(()) } else { Err(Error::PreviousIo) }
}

fn stub_wait<'a, T>(_cv: &StdCondvar, guard: StdGuard<'a, T>) -> LockResult<StdGuard<'a, T>> {
    kani::assume(false);
    Ok(guard)
}

fn stub_notify_one(_cv: &StdCondvar) {}

fn not_panicking() -> bool {
    false
}

fn no_format(_args: core::fmt::Arguments<'_>) -> alloc::string::String {
    alloc::string::String::new()
}

// @harness props=C20,C03,C08 tier=quick timeout=2400 mem=20 stubbing=1 replay=scenario:close flavor=nodebug
// @desc Database drop against a write transaction, both drop orders, with/without a live writer, with/without a latched storage failure, with/without needs_repair: after both handles are gone the backend's close() has run EXACTLY once and nothing touched the backend afterwards; while the write transaction is still live after the Database was dropped the backend is NOT yet closed; the shutdown commit is attempted at most once and never when needs_repair is set
// @functions Drop for Database, Drop for TransactionGuard, close_database, TransactionTracker::{defer_close_if_write_transaction_live,end_write_transaction,start_write_transaction}, TransactionalMemory::{close,flush_shutdown_header,needs_repair,storage_failure}, PagedCachedFile::{close,check_io_errors}, CheckedBackend::{close,check_failure}
// @bound one Database handle, at most one write transaction guard; all four booleans and the drop order arbitrary
// @stubs ensure_allocator_state_table_and_trim -> no-op returning Ok/Err; TransactionalMemory::write_header, PagedCachedFile::{flush,resize,sync_file} -> event log; Condvar::{wait,notify_one}; crate::panicking -> false; xxh3_checksum -> uninterpreted; alloc::fmt::format -> empty
#[kani::proof]
#[kani::unwind(22)]
#[kani::stub(ensure_allocator_state_table_and_trim, stub_ensure)]
#[kani::stub(TransactionalMemory::write_header, crate::tree_store::page_store::page_manager::verif_kani::stub_write_header)]
#[kani::stub(crate::tree_store::page_store::cached_file::PagedCachedFile::flush, crate::tree_store::page_store::page_manager::verif_kani::stub_flush)]
#[kani::stub(std::sync::Condvar::wait, stub_wait)]
#[kani::stub(std::sync::Condvar::notify_one, stub_notify_one)]
#[kani::stub(crate::panicking, not_panicking)]
#[kani::stub(crate::tree_store::page_store::page_manager::xxh3_checksum, crate::tree_store::page_store::header::verif_kani::uf_checksum)]
#[kani::stub(alloc::fmt::format, no_format)]
fn c20_database_drop_closes_once() {
    let mem = Arc::new(crate::tree_store::verif_literal_mem());
    crate::tree_store::verif_set_cur_mem(&mem);
    let tracker = Arc::new(TransactionTracker::new(TransactionId::new(3)));
    let writer_live: bool = kani::any();
    let failure: bool = kani::any();
    let needs_repair: bool = kani::any();
    let db_first: bool = kani::any();
    let guard = if writer_live {
        Some(TransactionGuard::new_write(tracker.start_write_transaction(), tracker.clone()))
    } else {
        None
    };
    if failure {
        mem.verif_latch_failure();
    }
    if needs_repair {
        mem.mark_needs_repair();
    }
    let db = Database {
        mem: mem.clone(),
        transaction_tracker: tracker.clone(),
    };
    if db_first {
        drop(db);
        if writer_live {
            assert!(counters().0 == 0, "backend stays open while the write transaction is live");
        }
        drop(guard);
    } else {
        drop(guard);
        assert!(counters().0 == 0, "ending the write transaction does not close a database that is still open");
        drop(db);
    }
    let (closes, after_close) = counters();
    assert!(closes == 1, "close() exactly once");
    assert!(after_close == 0, "nothing touches the backend after close()");
    assert!(unsafe { ENSURE_CALLS } <= 1, "shutdown commit attempted at most once");
    if needs_repair {
        assert!(unsafe { ENSURE_CALLS } == 0, "no allocator state is saved when it needs repair");
    }
    kani::cover!(writer_live && db_first && failure, "Database dropped before a failed live write transaction");
    kani::cover!(writer_live && !db_first, "write transaction ended first");
    core::mem::forget(mem);
    core::mem::forget(tracker);
}
