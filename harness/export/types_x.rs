// Appended (as `pub mod verif_export`) to src/types.rs of the CURRENT tree's overlay for the
// differential crate: plain-data wrappers around crate-private items.
#![allow(dead_code, clippy::all, clippy::pedantic)]
use super::*;

/// bytes the current tree stores in a table definition for type T's name
pub fn type_name_bytes<T: Value>() -> alloc::vec::Vec<u8> {
    T::type_name().to_bytes()
}

/// parse stored type-name bytes: (classification byte as re-serialised, name length)
pub fn type_name_parse(bytes: &[u8]) -> (u8, usize) {
    let t = TypeName::from_bytes(bytes);
    (t.to_bytes()[0], t.name().len())
}

/// does the current tree accept `stored` (bytes of a stored type name) for type T?
/// (exact equality or the recorded legacy spelling, as InternalTableDefinition::check_match does)
pub fn type_name_accepts<T: Value>(stored: &[u8]) -> bool {
    let s = TypeName::from_bytes(stored);
    let want = T::type_name();
    want == s || want.matches_legacy(&s)
}
