// Appended as `pub mod verif_export` to src/tree_store/btree_base.rs of BOTH overlays: leaf and
// branch page writers / readers behind plain-data signatures.
#![allow(dead_code, clippy::all, clippy::pedantic)]
use super::*;
use crate::tree_store::PageNumber;

pub struct XPage<'a>(pub &'a [u8]);

impl crate::tree_store::Page for XPage<'_> {
    fn memory(&self) -> &[u8] {
        self.0
    }
    fn get_page_number(&self) -> PageNumber {
        PageNumber::new(0, 0, 0)
    }
}

/// build a two-pair leaf with this version's RawLeafBuilder
pub fn build_leaf2(page: &mut [u8], fk: Option<usize>, fv: Option<usize>, k0: &[u8], v0: &[u8], k1: &[u8], v1: &[u8]) {
    let mut b = RawLeafBuilder::new(page, 2, fk, fv, k0.len() + k1.len());
    b.append(k0, v0);
    b.append(k1, v1);
}

/// read entry `n` of a leaf with this version's LeafAccessor: (key start, key end, value start, value end)
pub fn leaf_entry(page: &[u8], fk: Option<usize>, fv: Option<usize>, n: usize) -> Option<(usize, usize, usize, usize)> {
    let a = LeafAccessor::new(page, fk, fv);
    a.entry_ranges(n).map(|(k, v)| (k.start, k.end, v.start, v.end))
}

pub fn leaf_num_pairs(page: &[u8], fk: Option<usize>, fv: Option<usize>) -> usize {
    LeafAccessor::new(page, fk, fv).num_pairs()
}

/// read child `n` of a branch page with this version's BranchAccessor: (page number bytes, checksum)
pub fn branch_child(page: &[u8], fk: Option<usize>, n: usize) -> Option<(u64, u128)> {
    let p = XPage(page);
    let a = BranchAccessor::new(&p, fk);
    match (a.child_page(n), a.child_checksum(n)) {
        (Some(pn), Some(ck)) => Some((u64::from_le_bytes(pn.to_le_bytes()), ck)),
        _ => None,
    }
}

pub fn branch_children(page: &[u8], fk: Option<usize>) -> usize {
    let p = XPage(page);
    BranchAccessor::new(&p, fk).count_children()
}
