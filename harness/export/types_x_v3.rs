// Appended (as `pub mod verif_export`) to src/types.rs of the redb 3.0.0 overlay.
#![allow(dead_code, clippy::all, clippy::pedantic)]
use super::*;

pub fn type_name_bytes<T: Value>() -> Vec<u8> {
    T::type_name().to_bytes()
}

/// redb 3.0.0's parser of stored type-name bytes (reached from InternalTableDefinition::from_bytes
/// whenever 3.0.0 reads a table definition record)
pub fn type_name_parse(bytes: &[u8]) -> (u8, usize) {
    let t = TypeName::from_bytes(bytes);
    (t.to_bytes()[0], t.name().len())
}

/// would redb 3.0.0 open a table whose stored name is `stored` as type T? (3.0.0 compares
/// TypeName values for equality)
pub fn type_name_accepts<T: Value>(stored: &[u8]) -> bool {
    TypeName::from_bytes(stored) == T::type_name()
}
