// Appended as `pub mod verif_export` to src/tree_store/page_store/header.rs of BOTH overlays
// (current tree and redb 3.0.0) for the differential crate: plain-data wrappers around the
// crate-private commit-slot codec.  Roots travel as (page number bytes as u64, checksum, length).
#![allow(dead_code, clippy::all, clippy::pedantic)]
use super::*;
use crate::tree_store::PageNumber;

pub type Root = Option<(u64, u128, u64)>;

fn mk(r: Root) -> Option<BtreeHeader> {
    r.map(|(pn, ck, len)| BtreeHeader::new(PageNumber::from_le_bytes(pn.to_le_bytes()), ck, len))
}

fn un(r: Option<BtreeHeader>) -> Root {
    r.map(|h| (u64::from_le_bytes(h.root.to_le_bytes()), h.checksum, h.length))
}

/// serialise a commit slot with this version's writer
pub fn slot_to_bytes(id: u64, user: Root, system: Root) -> [u8; 128] {
    let mut s = TransactionHeader::new(TransactionId::new(id));
    s.user_root = mk(user);
    s.system_root = mk(system);
    s.to_bytes()
}

/// parse a commit slot with this version's reader: (id, user root, system root, checksum mismatch)
pub fn slot_from_bytes(data: &[u8]) -> Option<(u64, Root, Root, bool)> {
    match TransactionHeader::from_bytes(data) {
        Ok((s, corrupted)) => Some((s.transaction_id.raw_id(), un(s.user_root), un(s.system_root), corrupted)),
        Err(_) => None,
    }
}
