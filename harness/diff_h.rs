// The differential harness crate of C19 (src/h.rs of crate `redb_diff`, which depends on
//   cur = the overlay of /repo's working tree          v3 = redb 3.0.0 from the cargo cache).
// The reference is not a description of the old reader but the old reader itself.
#![allow(dead_code, unused_imports, unused_comparisons, clippy::all, clippy::pedantic)]

use core::cmp::Ordering;
use cur::Key as CKey;
use cur::Value as CValue;
use v3::Key as VKey;
use v3::Value as VValue;

fn lex(a: &[u8], b: &[u8]) -> Ordering {
    let mut i = 0usize;
    while i < a.len() && i < b.len() {
        if a[i] < b[i] {
            return Ordering::Less;
        }
        if a[i] > b[i] {
            return Ordering::Greater;
        }
        i += 1;
    }
    a.len().cmp(&b.len())
}

fn bytes_eq(a: &[u8], b: &[u8]) -> bool {
    lex(a, b) == Ordering::Equal
}

fn any_len<const M: usize>() -> usize {
    let n: usize = kani::any();
    kani::assume(n <= M);
    n
}

// ---- integers ---------------------------------------------------------------------------------

macro_rules! int_diff {
    ($name:ident, $t:ty) => {
        #[kani::proof]
        #[kani::unwind(18)]
        fn $name() {
            let a: $t = kani::any();
            let b: $t = kani::any();
            let ca = <$t as CValue>::as_bytes(&a);
            let va = <$t as VValue>::as_bytes(&a);
            let cb = <$t as CValue>::as_bytes(&b);
            assert!(bytes_eq(&ca, &va), "both versions encode the value identically");
            assert!(<$t as CValue>::fixed_width() == <$t as VValue>::fixed_width());
            assert!(<$t as CKey>::compare(&ca, &cb) == <$t as VKey>::compare(&ca, &cb), "both order encodings identically");
            assert!(<$t as VValue>::from_bytes(&ca) == a, "3.0.0 reads the current encoding back");
            assert!(<$t as CValue>::from_bytes(&va) == a, "the current tree reads 3.0.0's encoding back");
            kani::cover!(a < b, "ordered");
        }
    };
}

// @harness props=C19 tier=quick timeout=600 mem=8
// @desc integer key types: encodings byte-identical in both versions, widths equal, both comparators order any two encodings identically, each version decodes the other's bytes to the original value
// @functions cur and v3: <int as Value>::{as_bytes,from_bytes,fixed_width}, <int as Key>::compare
// @bound none: both values arbitrary
int_diff!(c19_int_u8, u8);
int_diff!(c19_int_u32, u32);
int_diff!(c19_int_u64, u64);
int_diff!(c19_int_i16, i16);
int_diff!(c19_int_i64, i64);
int_diff!(c19_int_u128, u128);
int_diff!(c19_int_i128, i128);

// @harness props=C19 tier=quick timeout=600 mem=8
// @desc bool and char: encodings identical, comparators agree, cross-decoding
// @functions cur and v3: <bool|char as Value>::{as_bytes,from_bytes}, <_ as Key>::compare
// @bound none
#[kani::proof]
#[kani::unwind(6)]
fn c19_bool_char() {
    let a: bool = kani::any();
    let b: bool = kani::any();
    let ca = <bool as CValue>::as_bytes(&a);
    let cb = <bool as CValue>::as_bytes(&b);
    assert!(bytes_eq(ca, <bool as VValue>::as_bytes(&a)));
    assert!(<bool as CKey>::compare(ca, cb) == <bool as VKey>::compare(ca, cb));
    assert!(<bool as VValue>::from_bytes(ca) == a);
    let c: char = kani::any();
    let d: char = kani::any();
    let cc = <char as CValue>::as_bytes(&c);
    let cd = <char as CValue>::as_bytes(&d);
    assert!(bytes_eq(&cc, &<char as VValue>::as_bytes(&c)));
    assert!(<char as CKey>::compare(&cc, &cd) == <char as VKey>::compare(&cc, &cd));
    assert!(<char as VValue>::from_bytes(&cc) == c);
    kani::cover!(c < d, "ordered chars");
}

// ---- byte strings: comparator agreement and the shortened separators -------------------------

// @harness props=C19 tier=quick timeout=900 mem=12
// @desc &[u8]: both comparators order any two encodings identically; the separator this version computes for a < b (possibly shortened) is ordered by 3.0.0's comparator exactly as by the current one: a <= s < b, without panicking - so a tree whose routing keys were shortened by this version routes correctly in 3.0.0
// @functions cur: <&[u8] as Key>::{compare,separator}; v3: <&[u8] as Key>::compare
// @bound both keys arbitrary byte strings of 0..=5 bytes
#[kani::proof]
#[kani::unwind(7)]
fn c19_bytes_separator_routes_in_v3() {
    let ba: [u8; 5] = kani::any();
    let bb: [u8; 5] = kani::any();
    let a = &ba[..any_len::<5>()];
    let b = &bb[..any_len::<5>()];
    let c = <&[u8] as CKey>::compare(a, b);
    assert!(c == <&[u8] as VKey>::compare(a, b));
    if c == Ordering::Less {
        let s = <&[u8] as CKey>::separator(a, b);
        assert!(<&[u8] as VKey>::compare(a, &s) != Ordering::Greater, "3.0.0: left <= separator");
        assert!(<&[u8] as VKey>::compare(&s, b) == Ordering::Less, "3.0.0: separator < right");
        // any query is routed to the same side by both versions
        let bq: [u8; 5] = kani::any();
        let q = &bq[..any_len::<5>()];
        assert!(<&[u8] as VKey>::compare(q, &s) == <&[u8] as CKey>::compare(q, &s));
        kani::cover!(s.len() < a.len(), "shortened separator");
    }
}

fn utf8_ok(b: &[u8]) -> bool {
    let mut i = 0usize;
    while i < b.len() {
        let c = b[i];
        if c < 0x80 {
            i += 1;
        } else if c >= 0xC2 && c <= 0xDF {
            if i + 1 >= b.len() || b[i + 1] & 0xC0 != 0x80 {
                return false;
            }
            i += 2;
        } else if c >= 0xE0 && c <= 0xEF {
            if i + 2 >= b.len() {
                return false;
            }
            let (c1, c2) = (b[i + 1], b[i + 2]);
            let lo = if c == 0xE0 { 0xA0 } else { 0x80 };
            let hi = if c == 0xED { 0x9F } else { 0xBF };
            if c1 < lo || c1 > hi || c2 & 0xC0 != 0x80 {
                return false;
            }
            i += 3;
        } else if c >= 0xF0 && c <= 0xF4 {
            if i + 3 >= b.len() {
                return false;
            }
            let (c1, c2, c3) = (b[i + 1], b[i + 2], b[i + 3]);
            let lo = if c == 0xF0 { 0x90 } else { 0x80 };
            let hi = if c == 0xF4 { 0x8F } else { 0xBF };
            if c1 < lo || c1 > hi || c2 & 0xC0 != 0x80 || c3 & 0xC0 != 0x80 {
                return false;
            }
            i += 4;
        } else {
            return false;
        }
    }
    true
}

fn from_utf8_stub(v: &[u8]) -> Result<&str, core::str::Utf8Error> {
    assert!(utf8_ok(v), "from_utf8().unwrap() reached with ill-formed UTF-8");
    Ok(unsafe { core::str::from_utf8_unchecked(v) })
}

// @harness props=C19 tier=quick timeout=1200 mem=12 stubbing=1 replay=native
// @desc &str: both comparators agree on well-formed encodings; the (possibly shortened, cut at a character boundary) separator of this version is accepted by 3.0.0's comparator - which deserialises and would panic on ill-formed UTF-8 - and ordered a <= s < b
// @functions cur: <&str as Key>::{compare,separator}, round_up_to_char_boundary; v3: <&str as Key>::compare, <&str as Value>::from_bytes
// @bound both keys well-formed UTF-8 of 0..=5 bytes
// @stubs core::str::from_utf8 -> independent validator (asserts well-formedness; proved equal to std's by c15_utf8_stub_equiv)
#[kani::proof]
#[kani::unwind(7)]
#[kani::stub(core::str::from_utf8, from_utf8_stub)]
fn c19_str_separator_routes_in_v3() {
    let ba: [u8; 5] = kani::any();
    let bb: [u8; 5] = kani::any();
    let a = &ba[..any_len::<5>()];
    let b = &bb[..any_len::<5>()];
    kani::assume(utf8_ok(a) && utf8_ok(b));
    let c = <&str as CKey>::compare(a, b);
    assert!(c == <&str as VKey>::compare(a, b));
    if c == Ordering::Less {
        let s = <&str as CKey>::separator(a, b);
        assert!(<&str as VKey>::compare(a, &s) != Ordering::Greater, "3.0.0: left <= separator");
        assert!(<&str as VKey>::compare(&s, b) == Ordering::Less, "3.0.0: separator < right");
        kani::cover!(s.len() < a.len(), "shortened separator");
    }
}

// @harness props=C19 tier=quick timeout=1200 mem=12
// @desc Option<&[u8]> and (u8,&[u8]): both comparators agree on any two valid encodings; the separator of this version is ordered a <= s < b by 3.0.0's comparator
// @functions cur: <Option<&[u8]> as Key>::{compare,separator}, tuple compare; v3: the same comparators
// @bound encodings of 1..=5 bytes, arbitrary contents (Option tag in {0,1}, tag 0 alone)
#[kani::proof]
#[kani::unwind(7)]
fn c19_option_tuple_compare() {
    let ba: [u8; 5] = kani::any();
    let bb: [u8; 5] = kani::any();
    let la: usize = kani::any();
    let lb: usize = kani::any();
    kani::assume(la >= 1 && la <= 5 && lb >= 1 && lb <= 5);
    let a = &ba[..la];
    let b = &bb[..lb];
    // tuples (u8,&[u8]): every non-empty byte string is a valid encoding
    assert!(<(u8, &[u8]) as CKey>::compare(a, b) == <(u8, &[u8]) as VKey>::compare(a, b));
    // options
    let va = (a[0] == 0 && la == 1) || a[0] == 1;
    let vb = (b[0] == 0 && lb == 1) || b[0] == 1;
    if va && vb {
        let c = <Option<&[u8]> as CKey>::compare(a, b);
        assert!(c == <Option<&[u8]> as VKey>::compare(a, b));
        if c == Ordering::Less {
            let s = <Option<&[u8]> as CKey>::separator(a, b);
            assert!(<Option<&[u8]> as VKey>::compare(a, &s) != Ordering::Greater);
            assert!(<Option<&[u8]> as VKey>::compare(&s, b) == Ordering::Less);
            kani::cover!(s.len() < a.len(), "shortened option separator");
            core::mem::forget(s);
        }
    }
}

// ---- type names ---------------------------------------------------------------------------------

macro_rules! name_same {
    ($t:ty) => {{
        let c = cur::vx_types::type_name_bytes::<$t>();
        let v = v3::vx_types::type_name_bytes::<$t>();
        assert!(bytes_eq(&c, &v), "stored type name bytes identical in both versions");
        // 3.0.0 parses what this version writes and accepts it for the same Rust type
        let (cls, len) = v3::vx_types::type_name_parse(&c);
        assert!(cls == c[0] && len + 1 == c.len());
        assert!(v3::vx_types::type_name_accepts::<$t>(&c), "3.0.0 opens a table created by this version");
        assert!(cur::vx_types::type_name_accepts::<$t>(&v), "this version opens a table created by 3.0.0");
        core::mem::forget(c);
        core::mem::forget(v);
    }};
}

macro_rules! name_harness {
    ($name:ident, $($t:ty),+) => {
        #[kani::proof]
        #[kani::unwind(12)]
        fn $name() {
            $( name_same!($t); )+
            kani::cover!(true, "names compared");
        }
    };
}

// @harness props=C19 tier=quick timeout=1200 mem=12
// @desc leaf (non-composite) built-in types: the type-name record this version stores is byte-identical to redb 3.0.0's, 3.0.0's parser accepts it and its table-type check accepts it for the same Rust type, and conversely
// @functions cur: Value::type_name, TypeName::{to_bytes,from_bytes,eq,matches_legacy}; v3: Value::type_name, TypeName::{to_bytes,from_bytes,eq}, TypeClassification::from_byte
// @bound the types named in the harness (no symbolic input: names are constants of the code)
name_harness!(c19_typename_leaf_unsigned, u8, u16, u32, u64, u128);
name_harness!(c19_typename_leaf_signed, i8, i16, i32, i64, i128);
name_harness!(c19_typename_leaf_misc, bool, char, (), f32, f64);
name_harness!(c19_typename_leaf_strings, &[u8], &str, String);

// @harness props=C19 tier=quick timeout=1200 mem=12
// @desc built-in composite key/value types - tuples: a table-definition record written by this version is parsed by redb 3.0.0's TypeName::from_bytes (reached whenever 3.0.0 reads the record, already during open). KNOWN FINDING: this version writes classification byte 4 (Internal3) for built-in composites, 3.0.0's TypeClassification::from_byte has `_ => unreachable!()`
// @functions cur: <(u64,u64) as Value>::type_name, TypeName::{into_composite,to_bytes}; v3: TypeName::from_bytes, TypeClassification::from_byte
// @bound type (u64,u64) and (u8,&[u8]) (names are constants of the code)
#[kani::proof]
#[kani::unwind(16)]
fn c19_typename_composite_tuple() {
    let c = cur::vx_types::type_name_bytes::<(u64, u64)>();
    kani::cover!(c[0] == 4, "current tree writes classification byte 4 for a built-in tuple");
    let (cls, len) = v3::vx_types::type_name_parse(&c);
    assert!(cls == c[0] && len + 1 == c.len());
    let c2 = cur::vx_types::type_name_bytes::<(u8, &[u8])>();
    let (cls2, _) = v3::vx_types::type_name_parse(&c2);
    assert!(cls2 == c2[0]);
    core::mem::forget(c);
    core::mem::forget(c2);
}

// the other direction is fine and is checked separately so that it is not masked by the finding
// @harness props=C19 tier=quick timeout=1200 mem=12
// @desc built-in tuple types written by redb 3.0.0 are accepted by this version (legacy spelling: 3.0.0 stores classification 1/3, this version matches it through matches_legacy)
// @functions v3: <(u64,u64) as Value>::type_name, TypeName::to_bytes; cur: TypeName::{from_bytes,eq,matches_legacy}
// @bound types (u64,u64) and (u8,&[u8])
#[kani::proof]
#[kani::unwind(16)]
fn c19_typename_composite_from_v3() {
    let v = v3::vx_types::type_name_bytes::<(u64, u64)>();
    assert!(cur::vx_types::type_name_accepts::<(u64, u64)>(&v), "this version opens 3.0.0's (u64,u64) table");
    let v2 = v3::vx_types::type_name_bytes::<(u8, &[u8])>();
    assert!(cur::vx_types::type_name_accepts::<(u8, &[u8])>(&v2));
    kani::cover!(v[0] == 1 && v2[0] == 3, "3.0.0 stores Internal / Internal2 for tuples");
    core::mem::forget(v);
    core::mem::forget(v2);
}

// ---- commit slot: each version reads what the other writes ----------------------------------------

fn any_root() -> Option<(u64, u128, u64)> {
    if kani::any() {
        // a valid page number: order <= 20, index below 2^(20-order), reserved bits clear
        let order: u64 = kani::any();
        kani::assume(order <= 20);
        let index: u64 = kani::any();
        kani::assume(index <= (0xFFFFFu64 >> order));
        let region: u64 = kani::any();
        kani::assume(region <= 0xFFFFF);
        Some((index | (region << 20) | (order << 59), kani::any(), kani::any()))
    } else {
        None
    }
}

// @harness props=C19 tier=thorough timeout=3600 mem=32 attempt=1
// @desc (attempted: did not close in 1800 s in the quick tier - four symbolic xxh3 evaluations) commit slot written by this version and parsed by redb 3.0.0's TransactionHeader::from_bytes yields the same transaction id, data root and system root (page number, checksum, length) - and conversely; field offsets of the 128-byte slot are identical in both versions (the first 112 bytes written by both writers are byte-identical)
// @functions cur and v3: TransactionHeader::{new,to_bytes,from_bytes}, BtreeHeader::{to_le_bytes,from_le_bytes}, PageNumber::{to_le_bytes,from_le_bytes}, xxh3_checksum (real, both copies)
// @bound none on the fields: id, both roots (present or not, any valid page number, checksum, length) arbitrary. The stored slot checksum is computed by each version's own xxh3 copy; that the two copies agree is NOT decided here (the equivalence query does not close, DESIGN.md P20), so the `corrupted` flag is compared only in c19_slot_checksum_vectors
#[kani::proof]
#[kani::unwind(12)]
fn c19_slot_fields_cross_read() {
    let id: u64 = kani::any();
    let user = any_root();
    let sys = any_root();
    let c = cur::vx_header::slot_to_bytes(id, user, sys);
    let v = v3::vx_header::slot_to_bytes(id, user, sys);
    let mut i = 0usize;
    while i < 7 {
        let mut x = [0u8; 16];
        let mut y = [0u8; 16];
        x.copy_from_slice(&c[i * 16..i * 16 + 16]);
        y.copy_from_slice(&v[i * 16..i * 16 + 16]);
        assert!(u128::from_le_bytes(x) == u128::from_le_bytes(y), "checksummed part of the slot is byte-identical in both versions");
        i += 1;
    }
    match v3::vx_header::slot_from_bytes(&c) {
        Some((vid, vu, vs, _corrupted)) => {
            assert!(vid == id && vu == user && vs == sys, "3.0.0 reads this version's slot to the same fields");
        }
        None => assert!(false, "3.0.0 parses this version's slot"),
    }
    match cur::vx_header::slot_from_bytes(&v) {
        Some((cid, cu, cs, _corrupted)) => {
            assert!(cid == id && cu == user && cs == sys, "this version reads 3.0.0's slot to the same fields");
        }
        None => assert!(false),
    }
    kani::cover!(user.is_some() && sys.is_none(), "data root only");
}

// @harness props=C19 tier=thorough timeout=3600 mem=32 attempt=1
// @desc (attempted: did not close in 1800 s in the quick tier) checksum agreement on fixed vectors: for three concrete commit slots the slot written by this version verifies under redb 3.0.0's reader (its own xxh3 copy) and conversely - a cross-check of the two xxh3 copies on constants, NOT a proof of their equivalence
// @functions cur and v3: TransactionHeader::{to_bytes,from_bytes}, hash128_with_seed
// @bound three concrete slots (constant inputs: CBMC evaluates both hash functions)
#[kani::proof]
#[kani::unwind(40)]
fn c19_slot_checksum_vectors() {
    let cases: [(u64, Option<(u64, u128, u64)>, Option<(u64, u128, u64)>); 3] = [
        (1, None, None),
        (0x1234_5678_9ABC_DEF0, Some((5 | (3 << 20), 0xDEAD_BEEF_0123_4567_89AB_CDEF_0011_2233, 42)), None),
        (u64::MAX - 1, Some((0xFFFFF, 1, u64::MAX)), Some((7 | (1 << 59), u128::MAX, 0))),
    ];
    let mut k = 0usize;
    while k < 3 {
        let (id, u, s) = cases[k];
        let c = cur::vx_header::slot_to_bytes(id, u, s);
        let v = v3::vx_header::slot_to_bytes(id, u, s);
        let mut same = true;
        let mut i = 0usize;
        while i < 8 {
            let mut x = [0u8; 16];
            let mut y = [0u8; 16];
            x.copy_from_slice(&c[i * 16..i * 16 + 16]);
            y.copy_from_slice(&v[i * 16..i * 16 + 16]);
            if u128::from_le_bytes(x) != u128::from_le_bytes(y) {
                same = false;
            }
            i += 1;
        }
        assert!(same, "both versions write byte-identical slots, checksum included");
        match v3::vx_header::slot_from_bytes(&c) {
            Some((_, _, _, corrupted)) => assert!(!corrupted, "3.0.0 verifies this version's slot checksum"),
            None => assert!(false),
        }
        k += 1;
    }
    kani::cover!(true, "vectors compared");
}

// ---- leaf and branch pages: each version reads what the other builds ----------------------------------

fn leaf_cross<const K0: usize, const V0: usize, const K1: usize, const V1: usize>(fk: Option<usize>, fv: Option<usize>) {
    let k0: [u8; K0] = kani::any();
    let v0: [u8; V0] = kani::any();
    let k1: [u8; K1] = kani::any();
    let v1: [u8; V1] = kani::any();
    let mut pc = [0u8; 64];
    let mut pv = [0u8; 64];
    cur::vx_btree::build_leaf2(&mut pc, fk, fv, &k0, &v0, &k1, &v1);
    v3::vx_btree::build_leaf2(&mut pv, fk, fv, &k0, &v0, &k1, &v1);
    let mut i = 0usize;
    while i < 64 {
        assert!(pc[i] == pv[i], "both versions build byte-identical leaf pages");
        i += 1;
    }
    assert!(v3::vx_btree::leaf_num_pairs(&pc, fk, fv) == 2);
    let mut n = 0usize;
    while n < 3 {
        assert!(v3::vx_btree::leaf_entry(&pc, fk, fv, n) == cur::vx_btree::leaf_entry(&pc, fk, fv, n), "3.0.0 locates every entry where this version does");
        n += 1;
    }
    let e1 = v3::vx_btree::leaf_entry(&pc, fk, fv, 1).unwrap();
    assert!(e1.1 - e1.0 == K1 && e1.3 - e1.2 == V1);
}

// @harness props=C19 tier=quick timeout=1800 mem=16
// @desc leaf pages: redb 3.0.0's RawLeafBuilder and this version's produce byte-identical pages for the same pairs, and 3.0.0's LeafAccessor locates every entry of a page built by this version exactly where this version's accessor does
// @functions cur and v3: RawLeafBuilder::{new,append}, LeafAccessor::{new,num_pairs,entry_ranges}
// @bound two pairs on a 64-byte page; shapes (variable 2/3 + variable 1/0), (fixed 2 + variable 3/1), (variable 1/3 + fixed 2); contents arbitrary
#[kani::proof]
#[kani::unwind(66)]
fn c19_leaf_cross_read() {
    leaf_cross::<2, 1, 3, 0>(None, None);
    leaf_cross::<2, 3, 2, 1>(Some(2), None);
    leaf_cross::<1, 2, 3, 2>(None, Some(2));
    kani::cover!(true, "three shapes");
}
