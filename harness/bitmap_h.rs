// Mounted under src/tree_store/page_store/bitmap.rs as `mod verif_kani` (cfg(kani) only).
// Raw-word constructors and accessors for BtreeBitmap / U64GroupedBitmap, used by the
// allocator harnesses, plus the bitmap-level inductive-step harnesses of C14.
#![allow(dead_code, unused_imports, unused_comparisons, clippy::all, clippy::pedantic)]

use super::{BtreeBitmap, U64GroupedBitmap};
use alloc::vec::Vec;

impl U64GroupedBitmap {
    pub(crate) fn verif_raw(len: u32, data: Vec<u64>) -> Self {
        Self { len, data }
    }
    pub(crate) fn verif_len(&self) -> u32 {
        self.len
    }
    pub(crate) fn verif_words(&self) -> &Vec<u64> {
        &self.data
    }
}

impl BtreeBitmap {
    /// levels[0] is the root
    pub(crate) fn verif_raw(levels: Vec<U64GroupedBitmap>) -> Self {
        Self { heights: levels }
    }
    pub(crate) fn verif_levels(&self) -> &Vec<U64GroupedBitmap> {
        &self.heights
    }
    pub(crate) fn verif_height(&self) -> usize {
        self.heights.len()
    }
    /// word `w` of level `lvl` (0 = root); u64::MAX when the Vec is shorter (a missing word
    /// is "all allocated" for every consumer, and shape mismatches are asserted separately)
    pub(crate) fn verif_word(&self, lvl: usize, w: usize) -> u64 {
        let d = &self.heights[lvl].data;
        if w < d.len() { d[w] } else { u64::MAX }
    }
    pub(crate) fn verif_level_len(&self, lvl: usize) -> u32 {
        self.heights[lvl].len
    }
    pub(crate) fn verif_level_words(&self, lvl: usize) -> usize {
        self.heights[lvl].data.len()
    }
}

/// Shape of the bitmap that `BtreeBitmap::new_padded(n, n, cap)` builds, written down
/// independently of it: number of levels, and (len, words) of level `l` (0 = root).
/// Supports up to four levels (cap <= 64^4, i.e. every u32 capacity redb uses).
pub(crate) const fn shape_height(cap: u32) -> usize {
    if cap <= 64 {
        1
    } else if cap <= 4096 {
        2
    } else if cap <= 262_144 {
        3
    } else {
        4
    }
}

pub(crate) const fn shape_len(n: u32, cap: u32, l: usize) -> u32 {
    // levels above the leaf: len is ceil(len_below / 64)
    let h = shape_height(cap);
    let mut len = n;
    let mut k = h - 1;
    while k > l {
        len = len.div_ceil(64);
        k -= 1;
    }
    len
}

pub(crate) const fn shape_words(n: u32, cap: u32, l: usize) -> usize {
    shape_len(n, cap, l).div_ceil(64) as usize
}

fn force_tail(x: u64, len: u32, w: usize) -> u64 {
    let first = (w as u32) * 64;
    if len <= first {
        u64::MAX
    } else if len - first < 64 {
        x | (u64::MAX << (len - first))
    } else {
        x
    }
}

fn lit_words(k: usize, a: u64, b: u64, c: u64) -> Vec<u64> {
    // struct-literal style construction: CBMC keeps lengths and pointers concrete for
    // `vec![..]` literals, which it does not for Vecs grown in loops (measured)
    match k {
        0 => alloc::vec![],
        1 => alloc::vec![a],
        2 => alloc::vec![a, b],
        _ => alloc::vec![a, b, c],
    }
}

/// Build a bitmap of the `new_padded(n, n, cap)` shape (n <= 192: at most three leaf words)
/// whose leaf words are `leaf[0..3]`; upper levels are *computed* as the summary function
/// (bit set iff the child word is all ones; bits beyond the level's length set), i.e. the
/// representation invariant of the summary levels holds by construction. Bits at or beyond `n`
/// in the leaf are forced to one.
pub(crate) fn mk_padded(n: u32, cap: u32, leaf: &[u64; 3]) -> BtreeBitmap {
    let h = shape_height(cap);
    let lwords = shape_words(n, cap, h - 1);
    let l0 = force_tail(leaf[0], n, 0);
    let l1 = force_tail(leaf[1], n, 1);
    let l2 = force_tail(leaf[2], n, 2);
    let leaf_bm = U64GroupedBitmap::verif_raw(n, lit_words(lwords, l0, l1, l2));
    if h == 1 {
        return BtreeBitmap::verif_raw(alloc::vec![leaf_bm]);
    }
    // level h-2: one bit per leaf word
    let len1 = shape_len(n, cap, h - 2);
    let mut x1 = u64::MAX;
    if len1 > 0 && l0 != u64::MAX {
        x1 &= !1u64;
    }
    if len1 > 1 && l1 != u64::MAX {
        x1 &= !2u64;
    }
    if len1 > 2 && l2 != u64::MAX {
        x1 &= !4u64;
    }
    let mid = U64GroupedBitmap::verif_raw(len1, lit_words(if len1 > 0 { 1 } else { 0 }, x1, 0, 0));
    if h == 2 {
        return BtreeBitmap::verif_raw(alloc::vec![mid, leaf_bm]);
    }
    // levels above: one bit (n <= 192 means at most one word below)
    let len0 = shape_len(n, cap, h - 3);
    let x0 = if x1 != u64::MAX { u64::MAX << 1 } else { u64::MAX };
    let up = U64GroupedBitmap::verif_raw(len0, lit_words(if len0 > 0 { 1 } else { 0 }, x0, 0, 0));
    if h == 3 {
        return BtreeBitmap::verif_raw(alloc::vec![up, mid, leaf_bm]);
    }
    let len00 = shape_len(n, cap, 0);
    let x00 = if x0 != u64::MAX { u64::MAX << 1 } else { u64::MAX };
    let root = U64GroupedBitmap::verif_raw(len00, lit_words(if len00 > 0 { 1 } else { 0 }, x00, 0, 0));
    BtreeBitmap::verif_raw(alloc::vec![root, up, mid, leaf_bm])
}

/// The summary invariant of a bitmap, evaluated on raw words: every level has the expected
/// length and at least the expected word count, bits beyond len are set, and every upper-level
/// bit equals "child word is all ones".
pub(crate) fn summary_ok(b: &BtreeBitmap, n: u32, cap: u32) -> bool {
    let h = shape_height(cap);
    if b.verif_height() != h {
        return false;
    }
    let mut ok = true;
    let mut l = 0usize;
    while l < h {
        let len = shape_len(n, cap, l);
        let words = shape_words(n, cap, l);
        if b.verif_level_len(l) != len || b.verif_level_words(l) < words {
            return false;
        }
        let mut w = 0usize;
        while w < words {
            let x = b.verif_word(l, w);
            if force_tail(x, len, w) != x {
                ok = false;
            }
            if l + 1 < h {
                let mut bit = 0usize;
                while bit < 64 && ((w * 64 + bit) as u32) < len {
                    let child_full = b.verif_word(l + 1, w * 64 + bit) == u64::MAX;
                    let set = x & (1u64 << bit) != 0;
                    if set != child_full {
                        ok = false;
                    }
                    bit += 1;
                }
            }
            w += 1;
        }
        l += 1;
    }
    ok
}

// ---------------------------------------------------------------------------------------------
// Bitmap-level harnesses (C14): one step of alloc / set / clear / find_first_unset on a
// two-level bitmap (capacity 128 and 130: two or three leaf words) from an arbitrary state
// satisfying the summary invariant.

fn leaf_bit(b: &BtreeBitmap, i: u32) -> bool {
    let h = b.verif_height();
    b.verif_word(h - 1, (i / 64) as usize) & (1u64 << (i % 64)) != 0
}

fn bm_step<const N: u32, const CAP: u32>() {
    let leaf: [u64; 3] = [kani::any(), kani::any(), kani::any()];
    let mut b = mk_padded(N, CAP, &leaf);
    assert!(summary_ok(&b, N, CAP));
    let before = [
        b.verif_word(b.verif_height() - 1, 0),
        b.verif_word(b.verif_height() - 1, 1),
        b.verif_word(b.verif_height() - 1, 2),
    ];
    let op: u8 = kani::any();
    match op {
        0 => {
            // find_first_unset + alloc: returns the lowest clear bit below len, sets exactly it
            let r = b.alloc();
            match r {
                Some(x) => {
                    assert!(x < N);
                    let w = (x / 64) as usize;
                    let m = 1u64 << (x % 64);
                    assert!(before[w] & m == 0);
                    // lowest
                    for ww in 0..3usize {
                        let nw = b.verif_word(b.verif_height() - 1, ww);
                        if ww < w {
                            assert!(before[ww] == u64::MAX);
                            assert!(nw == before[ww]);
                        } else if ww == w {
                            assert!(before[ww] & (m - 1) == m - 1);
                            assert!(nw == before[ww] | m);
                        } else {
                            assert!(nw == before[ww]);
                        }
                    }
                    kani::cover!(w == 1, "allocated from the second word");
                }
                None => {
                    assert!(before[0] == u64::MAX && before[1] == u64::MAX && before[2] == u64::MAX);
                    kani::cover!(true, "refused: full");
                }
            }
        }
        1 => {
            let i: u32 = kani::any();
            kani::assume(i < N);
            b.set(i);
            assert!(leaf_bit(&b, i));
            for ww in 0..3usize {
                let nw = b.verif_word(b.verif_height() - 1, ww);
                if ww == (i / 64) as usize {
                    assert!(nw == before[ww] | (1u64 << (i % 64)));
                } else {
                    assert!(nw == before[ww]);
                }
            }
        }
        _ => {
            let i: u32 = kani::any();
            kani::assume(i < N);
            b.clear(i);
            assert!(!leaf_bit(&b, i));
            for ww in 0..3usize {
                let nw = b.verif_word(b.verif_height() - 1, ww);
                if ww == (i / 64) as usize {
                    assert!(nw == before[ww] & !(1u64 << (i % 64)));
                } else {
                    assert!(nw == before[ww]);
                }
            }
        }
    }
    assert!(summary_ok(&b, N, CAP));
    // has_unset / count_unset agree with the raw words
    let mut zeros = 0u32;
    for ww in 0..3usize {
        zeros += b.verif_word(b.verif_height() - 1, ww).count_zeros();
    }
    assert!(b.has_unset() == (zeros > 0));
    assert!(b.count_unset() == zeros);
    kani::cover!(zeros == 0, "bitmap became full");
    core::mem::forget(b);
}

// @harness props=C14 tier=thorough timeout=3600 mem=24 attempt=1
// @desc one step of BtreeBitmap::{alloc,set,clear} on a multi-level bitmap from an arbitrary state satisfying the summary invariant (every upper-level bit = "child word is full"): alloc returns and sets exactly the lowest clear bit below len, or None when full; set/clear change exactly one leaf bit; the summary invariant is re-established; has_unset / count_unset agree with the raw words
// @functions BtreeBitmap::{alloc,find_first_unset,set,clear,update_to_root,has_unset,count_unset}, U64GroupedBitmap::{first_unset,set,clear,any_unset,count_unset}
// @bound bitmap length / capacity as named (2-, 3-level trees, up to three leaf words); all leaf words, the operation and the index arbitrary
#[kani::proof]
#[kani::unwind(66)]
fn c14_bitmap_step_128() {
    bm_step::<128, 128>();
}

// @harness props=C14 tier=thorough timeout=3600 mem=24
// @desc one step of BtreeBitmap::{alloc,set,clear} on a multi-level bitmap from an arbitrary state satisfying the summary invariant (every upper-level bit = "child word is full"): alloc returns and sets exactly the lowest clear bit below len, or None when full; set/clear change exactly one leaf bit; the summary invariant is re-established; has_unset / count_unset agree with the raw words
// @functions BtreeBitmap::{alloc,find_first_unset,set,clear,update_to_root,has_unset,count_unset}, U64GroupedBitmap::{first_unset,set,clear,any_unset,count_unset}
// @bound bitmap length / capacity as named (2-, 3-level trees, up to three leaf words); all leaf words, the operation and the index arbitrary
#[kani::proof]
#[kani::unwind(66)]
fn c14_bitmap_step_130_of_4096() {
    bm_step::<130, 4096>();
}

// @harness props=C14 tier=thorough timeout=3600 mem=24
// @desc one step of BtreeBitmap::{alloc,set,clear} on a multi-level bitmap from an arbitrary state satisfying the summary invariant (every upper-level bit = "child word is full"): alloc returns and sets exactly the lowest clear bit below len, or None when full; set/clear change exactly one leaf bit; the summary invariant is re-established; has_unset / count_unset agree with the raw words
// @functions BtreeBitmap::{alloc,find_first_unset,set,clear,update_to_root,has_unset,count_unset}, U64GroupedBitmap::{first_unset,set,clear,any_unset,count_unset}
// @bound bitmap length / capacity as named (2-, 3-level trees, up to three leaf words); all leaf words, the operation and the index arbitrary
#[kani::proof]
#[kani::unwind(66)]
fn c14_bitmap_step_70_of_128() {
    bm_step::<70, 128>();
}

// @harness props=C14 tier=thorough timeout=3600 mem=24
// @desc one step of BtreeBitmap::{alloc,set,clear} on a multi-level bitmap from an arbitrary state satisfying the summary invariant (every upper-level bit = "child word is full"): alloc returns and sets exactly the lowest clear bit below len, or None when full; set/clear change exactly one leaf bit; the summary invariant is re-established; has_unset / count_unset agree with the raw words
// @functions BtreeBitmap::{alloc,find_first_unset,set,clear,update_to_root,has_unset,count_unset}, U64GroupedBitmap::{first_unset,set,clear,any_unset,count_unset}
// @bound bitmap length / capacity as named (2-, 3-level trees, up to three leaf words); all leaf words, the operation and the index arbitrary
#[kani::proof]
#[kani::unwind(66)]
fn c14_bitmap_step_130_of_5000() {
    bm_step::<130, 5000>();
}
