// Mounted under src/tree_store/table_tree_base.rs as `mod verif_kani` (cfg(kani)).
// C17 (type-and-kind gate of the table catalog), C10 (table definition record codec).
#![allow(dead_code, unused_imports, unused_comparisons, clippy::all, clippy::pedantic)]

use super::*;
use crate::types::TypeName;

pub(crate) fn no_format(_args: core::fmt::Arguments<'_>) -> alloc::string::String {
    alloc::string::String::new()
}

fn any_opt_width() -> Option<usize> {
    if kani::any() {
        let w: u32 = kani::any();
        Some(w as usize)
    } else {
        None
    }
}

fn mk_def(multimap: bool, fk: Option<usize>, fv: Option<usize>, ka: usize, va: usize, k: TypeName, v: TypeName) -> InternalTableDefinition {
    if multimap {
        InternalTableDefinition::Multimap {
            table_root: None,
            table_length: kani::any(),
            fixed_key_size: fk,
            fixed_value_size: fv,
            key_alignment: ka,
            value_alignment: va,
            key_type: k,
            value_type: v,
        }
    } else {
        InternalTableDefinition::Normal {
            table_root: None,
            table_length: kani::any(),
            fixed_key_size: fk,
            fixed_value_size: fv,
            key_alignment: ka,
            value_alignment: va,
            key_type: k,
            value_type: v,
        }
    }
}

/// stored type name of `L` name bytes (arbitrary ASCII) and an arbitrary classification
fn any_name<const L: usize>() -> (TypeName, u8, [u8; L]) {
    let cls: u8 = kani::any();
    kani::assume(cls >= 1 && cls <= 4);
    let name: [u8; L] = kani::any();
    let mut i = 0;
    while i < L {
        kani::assume(name[i] < 0x80);
        i += 1;
    }
    let s = unsafe { core::str::from_utf8_unchecked(&name) };
    (TypeName::verif_raw(cls, s), cls, name)
}

fn is_bytes<const L: usize>(a: &[u8; L], b: &[u8]) -> bool {
    if b.len() != L {
        return false;
    }
    let mut eq = true;
    let mut i = 0;
    while i < L {
        if a[i] != b[i] {
            eq = false;
        }
        i += 1;
    }
    eq
}

// @harness props=C17 tier=quick timeout=1500 mem=16 stubbing=1 replay=native
// @desc check_match::<u64,u8> against an arbitrary stored definition (kind, both alignments, both fixed widths, classification bytes, 3-/2-byte names): Ok only if the kind equals the requested kind, both alignments are 1, the stored widths are Some(8)/Some(1) and the stored names are exactly Internal "u64" / Internal "u8"; a kind mismatch yields TableIsMultimap / TableIsNotMultimap, a name or classification mismatch TableTypeMismatch, an alignment or width mismatch TypeDefinitionChanged - the table's bytes are never reinterpreted
// @functions InternalTableDefinition::{check_match,check_match_untyped,get_type}, TypeName::{eq,matches_legacy}, <u64|u8 as Value>::{type_name,fixed_width}
// @bound stored key name 3 ASCII bytes, stored value name 2 ASCII bytes, classification 1..=4, widths any u32 or None, alignments any, kind and requested kind arbitrary
// @stubs alloc::fmt::format -> empty string
#[kani::proof]
#[kani::unwind(8)]
#[kani::stub(alloc::fmt::format, no_format)]
fn c17_check_match_leaf_types() {
    let (kname, kcls, kb) = any_name::<3>();
    let (vname, vcls, vb) = any_name::<2>();
    let multimap: bool = kani::any();
    let fk = any_opt_width();
    let fv = any_opt_width();
    let ka: usize = kani::any();
    let va: usize = kani::any();
    let def = mk_def(multimap, fk, fv, ka, va, kname, vname);
    let want_multimap: bool = kani::any();
    let tt = if want_multimap { TableType::Multimap } else { TableType::Normal };
    let r = def.check_match::<u64, u8>(tt, "t");
    let kind_ok = multimap == want_multimap;
    let align_ok = ka == 1 && va == 1;
    let names_ok = kcls == 1 && is_bytes(&kb, b"u64") && vcls == 1 && is_bytes(&vb, b"u8");
    let widths_ok = fk == Some(8) && fv == Some(1);
    match &r {
        Ok(()) => {
            assert!(kind_ok && align_ok && names_ok && widths_ok, "accepted only if everything agrees");
            kani::cover!(true, "matching definition accepted");
        }
        Err(TableError::TableIsMultimap(_)) => assert!(!kind_ok && multimap),
        Err(TableError::TableIsNotMultimap(_)) => assert!(!kind_ok && !multimap),
        Err(TableError::TableTypeMismatch { .. }) => {
            assert!(kind_ok && align_ok && !names_ok);
            kani::cover!(kcls == 2 && is_bytes(&kb, b"u64"), "user-defined type named like a built-in is refused");
        }
        Err(TableError::TypeDefinitionChanged { .. }) => {
            assert!(kind_ok && (!align_ok || (names_ok && !widths_ok)));
            kani::cover!(align_ok, "width changed");
        }
        Err(_) => assert!(false, "no other error variant"),
    }
    assert!(r.is_ok() == (kind_ok && align_ok && names_ok && widths_ok), "refused whenever anything differs");
    core::mem::forget(r);
    core::mem::forget(def);
}

// @harness props=C17 tier=quick timeout=1500 mem=16 stubbing=1 replay=native
// @desc check_match::<(u8,u8),()> against a stored definition whose key name is 7 arbitrary ASCII bytes with an arbitrary classification: accepted iff the name is "(u8,u8)" and the classification is Internal3 (what this version writes) or Internal (the spelling older versions stored); a user-defined type (classification 2) or Internal2 with the same name is refused, so a user composite never aliases a built-in one
// @functions InternalTableDefinition::check_match, TypeName::{eq,matches_legacy,into_composite}, tuple type_name_impl!
// @bound stored key name 7 ASCII bytes, classification 1..=4; everything else fixed to the matching values
// @stubs alloc::fmt::format -> empty string
#[kani::proof]
#[kani::unwind(10)]
#[kani::stub(alloc::fmt::format, no_format)]
fn c17_check_match_composite() {
    let (kname, kcls, kb) = any_name::<7>();
    let vname = TypeName::verif_raw(1, "()");
    let def = mk_def(false, Some(2), Some(0), 1, 1, kname, vname);
    let r = def.check_match::<(u8, u8), ()>(TableType::Normal, "t");
    let name_ok = is_bytes(&kb, b"(u8,u8)");
    assert!(r.is_ok() == (name_ok && (kcls == 4 || kcls == 1)), "accepted iff same name and built-in (current or legacy) classification");
    kani::cover!(r.is_ok() && kcls == 1, "legacy spelling accepted");
    kani::cover!(r.is_err() && name_ok && kcls == 2, "user-defined composite with the same name refused");
    core::mem::forget(r);
    core::mem::forget(def);
}

// @harness props=C10 tier=thorough timeout=3600 mem=44 stubbing=1 replay=native attempt=1
// @desc InternalTableDefinition record codec: from_bytes(as_bytes(d)) == d for kind, length, root, widths, alignments and both type names; the record length does not depend on root or length (as create_table_and_flush_table_root requires); field offsets: kind 0, length 1, root flag 9, root 10, key width flag 42 ...
// @functions <InternalTableDefinition as Value>::{as_bytes,from_bytes}, BtreeHeader::{to_le_bytes,from_le_bytes}, TypeName::{to_bytes,from_bytes}
// @bound type names "u64"/"u8" (Internal); kind, table length, root (present or not), widths arbitrary
// @stubs alloc::fmt::format -> empty string
#[kani::proof]
#[kani::unwind(12)]
#[kani::stub(alloc::fmt::format, no_format)]
fn c10_table_definition_codec() {
    let multimap: bool = kani::any();
    let fk = any_opt_width();
    let fv = any_opt_width();
    let mut def = mk_def(multimap, fk, fv, 1, 1, TypeName::verif_raw(1, "u64"), TypeName::verif_raw(1, "u8"));
    let root = if kani::any() {
        Some(BtreeHeader::new(PageNumber::from_le_bytes(kani::any::<u64>().to_le_bytes()), kani::any(), kani::any()))
    } else {
        None
    };
    let len: u64 = kani::any();
    def.set_header(root, len);
    let bytes = InternalTableDefinition::as_bytes(&def);
    // length independent of contents
    let def0 = mk_def(multimap, fk, fv, 1, 1, TypeName::verif_raw(1, "u64"), TypeName::verif_raw(1, "u8"));
    let bytes0 = InternalTableDefinition::as_bytes(&def0);
    assert!(bytes.len() == bytes0.len(), "record length independent of root and length");
    assert!(bytes[0] == if multimap { 4 } else { 3 });
    let mut l = [0u8; 8];
    l.copy_from_slice(&bytes[1..9]);
    assert!(u64::from_le_bytes(l) == len);
    assert!((bytes[9] != 0) == root.is_some());
    let back = InternalTableDefinition::from_bytes(&bytes);
    assert!(back.get_type() == def.get_type());
    assert!(back.get_length() == len);
    assert!(back.private_get_fixed_key_size() == fk && back.private_get_fixed_value_size() == fv);
    assert!(back.private_get_key_alignment() == 1 && back.private_get_value_alignment() == 1);
    assert!(back.private_key_type() == TypeName::verif_raw(1, "u64"));
    assert!(back.private_value_type() == TypeName::verif_raw(1, "u8"));
    match (back.private_get_root(), root) {
        (None, None) => {}
        (Some(a), Some(b)) => {
            assert!(a.root.to_le_bytes() == b.root.to_le_bytes() && a.checksum == b.checksum && a.length == b.length);
            kani::cover!(true, "root round-tripped");
        }
        _ => assert!(false),
    }
    core::mem::forget(bytes);
    core::mem::forget(bytes0);
    core::mem::forget(back);
    core::mem::forget(def);
    core::mem::forget(def0);
}


// ---- C17: a composite containing a user-defined type never aliases the built-in composite ----------

#[derive(Debug)]
struct UserU32;

impl crate::Value for UserU32 {
    type SelfType<'a> = u32;
    type AsBytes<'a> = [u8; 4];
    fn fixed_width() -> Option<usize> {
        Some(4)
    }
    fn from_bytes<'a>(data: &'a [u8]) -> u32
    where
        Self: 'a,
    {
        !u32::from_le_bytes([data[0], data[1], data[2], data[3]])
    }
    fn as_bytes<'a, 'b: 'a>(value: &'a u32) -> [u8; 4]
    where
        Self: 'b,
    {
        (!*value).to_le_bytes()
    }
    fn type_name() -> TypeName {
        // a user type deliberately named like a built-in
        TypeName::new("u32")
    }
}

impl crate::Key for UserU32 {
    fn compare(a: &[u8], b: &[u8]) -> core::cmp::Ordering {
        a.cmp(b)
    }
}

fn names_differ<A: Value, B: Value>() {
    let a = A::type_name();
    let b = B::type_name();
    assert!(a != b, "a composite with a user-defined element has a different stored identity than the built-in one");
    assert!(!a.matches_legacy(&b) || a.is_user_defined(), "and is not accepted through the legacy spelling of the built-in");
    core::mem::forget(a);
    core::mem::forget(b);
}

// @harness props=C17 tier=quick timeout=1500 mem=16 replay=native
// @desc a tuple that contains a user-defined type named like a built-in ("u32"), in ANY position, is classified user-defined: its stored type name differs from the same-spelled built-in tuple's, so check_match refuses to open one as the other (in both directions, as key or as value) instead of reinterpreting the bytes
// @functions tuple type_name_impl! (2- and 3-tuples), TypeName::{into_composite,eq,is_user_defined}, InternalTableDefinition::check_match
// @bound tuples (User,u64), (u64,User), (u8,User,u8), (u8,u8,User) against their built-in spellings; no symbolic input (names are constants of the code)
#[kani::proof]
#[kani::unwind(16)]
fn c17_user_tuple_never_aliases_builtin() {
    names_differ::<(UserU32, u64), (u32, u64)>();
    names_differ::<(u64, UserU32), (u64, u32)>();
    names_differ::<(u8, UserU32, u8), (u8, u32, u8)>();
    names_differ::<(u8, u8, UserU32), (u8, u8, u32)>();
    assert!(<(u64, UserU32) as Value>::type_name().is_user_defined());
    // and through the gate itself: a stored (u64,u32) table is not opened as (u64,UserU32)
    let def = mk_def(false, Some(8), Some(12), 1, 1, <u64 as Value>::type_name(), <(u64, u32) as Value>::type_name());
    let r = def.check_match::<u64, (u64, UserU32)>(TableType::Normal, "t");
    assert!(matches!(r, Err(TableError::TableTypeMismatch { .. })), "refused with TableTypeMismatch");
    let def2 = mk_def(false, Some(8), Some(12), 1, 1, <u64 as Value>::type_name(), <(u64, UserU32) as Value>::type_name());
    let r2 = def2.check_match::<u64, (u64, u32)>(TableType::Normal, "t");
    assert!(matches!(r2, Err(TableError::TableTypeMismatch { .. })));
    kani::cover!(true, "compared");
    core::mem::forget(r);
    core::mem::forget(r2);
    core::mem::forget(def);
    core::mem::forget(def2);
}
