// Mounted under src/types.rs as `mod verif_kani` (cfg(kani)).
// C15: for every built-in key type, compare = value order, round trip, separator contract
// and validity, min_encoded_key, over bounded encodings with symbolic contents.
#![allow(dead_code, unused_imports, unused_comparisons, clippy::all, clippy::pedantic)]

use super::*;
use alloc::borrow::Cow;
use alloc::vec::Vec;
use core::cmp::Ordering;

impl TypeName {
    /// stored type name with an explicit classification byte (1 Internal, 2 UserDefined,
    /// 3 Internal2, 4 Internal3), as TypeName::from_bytes would produce it
    pub(crate) fn verif_raw(cls: u8, name: &str) -> Self {
        Self {
            classification: TypeClassification::from_byte(cls),
            name: alloc::string::String::from(name),
            legacy_classification: None,
        }
    }
}

// ---- oracles written independently of the code under test -------------------------------

/// lexicographic byte order (the documented order of &[u8] and, via UTF-8, of str)
pub(crate) fn lex(a: &[u8], b: &[u8]) -> Ordering {
    let mut i = 0usize;
    while i < a.len() && i < b.len() {
        if a[i] < b[i] {
            return Ordering::Less;
        }
        if a[i] > b[i] {
            return Ordering::Greater;
        }
        i += 1;
    }
    if a.len() < b.len() {
        Ordering::Less
    } else if a.len() > b.len() {
        Ordering::Greater
    } else {
        Ordering::Equal
    }
}

/// UTF-8 well-formedness (Unicode 15 table 3-7), written from the standard
pub(crate) fn utf8_ok(b: &[u8]) -> bool {
    let mut i = 0usize;
    while i < b.len() {
        let c = b[i];
        if c < 0x80 {
            i += 1;
        } else if c >= 0xC2 && c <= 0xDF {
            if i + 1 >= b.len() || b[i + 1] & 0xC0 != 0x80 {
                return false;
            }
            i += 2;
        } else if c >= 0xE0 && c <= 0xEF {
            if i + 2 >= b.len() {
                return false;
            }
            let (c1, c2) = (b[i + 1], b[i + 2]);
            let lo = if c == 0xE0 { 0xA0 } else { 0x80 };
            let hi = if c == 0xED { 0x9F } else { 0xBF };
            if c1 < lo || c1 > hi || c2 & 0xC0 != 0x80 {
                return false;
            }
            i += 3;
        } else if c >= 0xF0 && c <= 0xF4 {
            if i + 3 >= b.len() {
                return false;
            }
            let (c1, c2, c3) = (b[i + 1], b[i + 2], b[i + 3]);
            let lo = if c == 0xF0 { 0x90 } else { 0x80 };
            let hi = if c == 0xF4 { 0x8F } else { 0xBF };
            if c1 < lo || c1 > hi || c2 & 0xC0 != 0x80 || c3 & 0xC0 != 0x80 {
                return false;
            }
            i += 4;
        } else {
            return false;
        }
    }
    true
}

/// Stand-in for core::str::from_utf8 in the string harnesses (std's validator dominates the
/// query otherwise).  Calling it on ill-formed bytes is reported as a failure - that is the
/// `from_utf8(..).unwrap()` panic of the real code.  `c15_utf8_stub_equiv` proves
/// utf8_ok == core::str::from_utf8(..).is_ok() on the same bound.
pub(crate) fn from_utf8_stub(v: &[u8]) -> Result<&str, core::str::Utf8Error> {
    assert!(utf8_ok(v), "from_utf8().unwrap() reached with ill-formed UTF-8");
    Ok(unsafe { core::str::from_utf8_unchecked(v) })
}

pub(crate) fn any_len<const M: usize>() -> usize {
    let len: usize = kani::any();
    kani::assume(len <= M);
    len
}

fn bytes_eq(a: &[u8], b: &[u8]) -> bool {
    lex(a, b) == Ordering::Equal
}

/// the separator contract of `Key::separator`, against comparator `cmp` (the value order)
fn check_separator<K: Key>(l: &[u8], r: &[u8], s: &[u8]) {
    assert!(K::compare(l, s) != Ordering::Greater, "left <= separator");
    assert!(K::compare(s, r) == Ordering::Less, "separator < right");
    assert!(s.len() <= l.len(), "separator no longer than left");
}

// ---- integers, bool, char, unit ----------------------------------------------------------

macro_rules! int_harness {
    ($name:ident, $t:ty) => {
        #[kani::proof]
        #[kani::unwind(18)]
        fn $name() {
            let a: $t = kani::any();
            let b: $t = kani::any();
            let ea = <$t as Value>::as_bytes(&a);
            let eb = <$t as Value>::as_bytes(&b);
            assert!(<$t as Key>::compare(&ea, &eb) == a.cmp(&b));
            assert!(<$t as Value>::from_bytes(&ea) == a);
            assert!(ea.len() == <$t as Value>::fixed_width().unwrap());
            if a < b {
                let s = <$t as Key>::separator(&ea, &eb);
                assert!(bytes_eq(&s, &ea), "fixed width: separator is left");
            }
            if let Some(m) = <$t as Key>::min_encoded_key() {
                assert!(<$t as Key>::compare(&m, &ea) != Ordering::Greater);
            }
            kani::cover!(a < b, "ordered pair");
        }
    };
}

// @harness props=C15 tier=quick timeout=300 mem=8
// @desc compare(enc a, enc b) == a.cmp(b); from_bytes(enc a) == a; width == fixed_width; separator == left; no min key above any value
// @functions <int as Value>::{as_bytes,from_bytes,fixed_width}, <int as Key>::{compare,separator,min_encoded_key}
// @bound none: both values range over the whole type
int_harness!(c15_int_u8, u8);
int_harness!(c15_int_u16, u16);
int_harness!(c15_int_u32, u32);
int_harness!(c15_int_u64, u64);
int_harness!(c15_int_i8, i8);
int_harness!(c15_int_i16, i16);
int_harness!(c15_int_i32, i32);
int_harness!(c15_int_i64, i64);

macro_rules! int128_harness {
    ($name:ident, $t:ty) => {
        #[kani::proof]
        #[kani::unwind(18)]
        fn $name() {
            let a: $t = kani::any();
            let b: $t = kani::any();
            let ea = <$t as Value>::as_bytes(&a);
            let eb = <$t as Value>::as_bytes(&b);
            assert!(<$t as Key>::compare(&ea, &eb) == a.cmp(&b));
            assert!(<$t as Value>::from_bytes(&ea) == a);
            assert!(ea.len() == 16);
            if a < b {
                let s = <$t as Key>::separator(&ea, &eb);
                assert!(bytes_eq(&s, &ea), "fixed width: separator is left");
            }
            kani::cover!(a < b, "ordered pair");
        }
    };
}
// @harness props=C15 tier=quick timeout=300 mem=8
// @desc compare(enc a, enc b) == a.cmp(b); from_bytes(enc a) == a; width 16; separator == left
// @functions <i128/u128 as Value>::{as_bytes,from_bytes}, <_ as Key>::{compare,separator}
// @bound none: both values range over the whole type
int128_harness!(c15_int_u128, u128);
int128_harness!(c15_int_i128, i128);

// @harness props=C15 tier=quick timeout=300 mem=8
// @desc bool, char and () : compare == value order, round trip, separator == left
// @functions <bool|char|() as Value>::{as_bytes,from_bytes}, <_ as Key>::compare
// @bound none
#[kani::proof]
#[kani::unwind(6)]
fn c15_bool_char_unit() {
    let a: bool = kani::any();
    let b: bool = kani::any();
    let ea = <bool as Value>::as_bytes(&a);
    let eb = <bool as Value>::as_bytes(&b);
    assert!(<bool as Key>::compare(ea, eb) == a.cmp(&b));
    assert!(<bool as Value>::from_bytes(ea) == a);
    assert!(ea.len() == 1);
    let c: char = kani::any();
    let d: char = kani::any();
    let ec = <char as Value>::as_bytes(&c);
    let ed = <char as Value>::as_bytes(&d);
    assert!(<char as Key>::compare(&ec, &ed) == c.cmp(&d));
    assert!(<char as Value>::from_bytes(&ec) == c);
    if c < d {
        let s = <char as Key>::separator(&ec, &ed);
        assert!(bytes_eq(&s, &ec));
    }
    let u = <() as Value>::as_bytes(&());
    assert!(u.len() == 0);
    assert!(<() as Key>::compare(u, u) == Ordering::Equal);
    kani::cover!(c < d && (c as u32) > 0xFFFF, "astral char");
}

// ---- &[u8] --------------------------------------------------------------------------------

fn bytes_case<const M: usize>() {
    let ba: [u8; M] = kani::any();
    let bb: [u8; M] = kani::any();
    let a = &ba[..any_len::<M>()];
    let b = &bb[..any_len::<M>()];
    assert!(<&[u8] as Key>::compare(a, b) == lex(a, b), "compare is lexicographic byte order");
    assert!(bytes_eq(<&[u8] as Value>::from_bytes(a), a));
    assert!(bytes_eq(<&[u8] as Value>::as_bytes(&a), a));
    let m = <&[u8] as Key>::min_encoded_key().unwrap();
    assert!(lex(&m, a) != Ordering::Greater);
    if lex(a, b) == Ordering::Less {
        let s = <&[u8] as Key>::separator(a, b);
        assert!(lex(a, &s) != Ordering::Greater, "left <= separator");
        assert!(lex(&s, b) == Ordering::Less, "separator < right");
        assert!(s.len() <= a.len());
        kani::cover!(s.len() < a.len(), "separator shorter than left");
        kani::cover!(s.len() == a.len(), "separator is left");
    }
}

// @harness props=C15 tier=quick timeout=600 mem=8
// @desc &[u8]: compare == lexicographic order (independent oracle), identity round trip, min key <= all, separator contract a <= s < b and len(s) <= len(a)
// @functions <&[u8] as Key>::{compare,separator,min_encoded_key}, <&[u8] as Value>::{from_bytes,as_bytes}
// @bound both keys are arbitrary byte strings of length 0..=5
#[kani::proof]
#[kani::unwind(7)]
fn c15_bytes_le5() {
    bytes_case::<5>();
}

// @harness props=C15 tier=thorough timeout=3000 mem=16 attempt=1
// @desc as c15_bytes_le5, length 0..=9
// @functions <&[u8] as Key>::{compare,separator,min_encoded_key}
// @bound both keys are arbitrary byte strings of length 0..=9
#[kani::proof]
#[kani::unwind(11)]
fn c15_bytes_le9() {
    bytes_case::<9>();
}

// transitivity / antisymmetry of the comparator on triples (byte strings have no value oracle
// other than lex, so the total-order laws are asserted directly)
// @harness props=C15 tier=quick timeout=600 mem=8
// @desc &[u8]::compare is a total order on triples: antisymmetric, transitive, Equal iff identical
// @functions <&[u8] as Key>::compare
// @bound three arbitrary byte strings of length 0..=4
#[kani::proof]
#[kani::unwind(6)]
fn c15_bytes_total_order() {
    let ba: [u8; 4] = kani::any();
    let bb: [u8; 4] = kani::any();
    let bc: [u8; 4] = kani::any();
    let a = &ba[..any_len::<4>()];
    let b = &bb[..any_len::<4>()];
    let c = &bc[..any_len::<4>()];
    let ab = <&[u8] as Key>::compare(a, b);
    let ba_ = <&[u8] as Key>::compare(b, a);
    let bc_ = <&[u8] as Key>::compare(b, c);
    let ac = <&[u8] as Key>::compare(a, c);
    assert!(ab == ba_.reverse());
    if ab == Ordering::Less && bc_ == Ordering::Less {
        assert!(ac == Ordering::Less);
    }
    if ab == Ordering::Equal {
        assert!(a.len() == b.len());
        assert!(ac == bc_);
    }
    kani::cover!(ab == Ordering::Less && bc_ == Ordering::Less, "chain");
}

// ---- &[u8; N] -----------------------------------------------------------------------------

// @harness props=C15 tier=quick timeout=300 mem=8
// @desc &[u8;4]: compare == array order, round trip, separator == left (fixed width)
// @functions <&[u8;N] as Key>::{compare,separator}, <&[u8;N] as Value>::{from_bytes,as_bytes}
// @bound N = 4, contents arbitrary
#[kani::proof]
#[kani::unwind(6)]
fn c15_byte_array4() {
    let a: [u8; 4] = kani::any();
    let b: [u8; 4] = kani::any();
    let (ra, rb) = (&a, &b);
    let ea = <&[u8; 4] as Value>::as_bytes(&ra);
    let eb = <&[u8; 4] as Value>::as_bytes(&rb);
    assert!(<&[u8; 4] as Key>::compare(ea, eb) == a.cmp(&b));
    assert!(lex(ea, eb) == a.cmp(&b));
    assert!(*<&[u8; 4] as Value>::from_bytes(ea) == a);
    if a < b {
        let s = <&[u8; 4] as Key>::separator(ea, eb);
        assert!(bytes_eq(&s, ea));
    }
    kani::cover!(a < b, "ordered");
}

// ---- &str / String ------------------------------------------------------------------------

fn str_case<const M: usize>() {
    let ba: [u8; M] = kani::any();
    let bb: [u8; M] = kani::any();
    let a = &ba[..any_len::<M>()];
    let b = &bb[..any_len::<M>()];
    kani::assume(utf8_ok(a));
    kani::assume(utf8_ok(b));
    // str orders as its UTF-8 bytes
    assert!(<&str as Key>::compare(a, b) == lex(a, b));
    assert!(<String as Key>::compare(a, b) == lex(a, b));
    assert!(bytes_eq(<&str as Value>::from_bytes(a).as_bytes(), a));
    let m = <&str as Key>::min_encoded_key().unwrap();
    assert!(utf8_ok(&m) && lex(&m, a) != Ordering::Greater);
    if lex(a, b) == Ordering::Less {
        let s = <&str as Key>::separator(a, b);
        assert!(utf8_ok(&s), "separator is valid UTF-8");
        assert!(lex(a, &s) != Ordering::Greater, "left <= separator");
        assert!(lex(&s, b) == Ordering::Less, "separator < right");
        assert!(s.len() <= a.len());
        // and through the real comparator, which deserialises (must not panic)
        check_separator::<&str>(a, b, &s);
        let s2 = <String as Key>::separator(a, b);
        assert!(bytes_eq(&s, &s2));
        kani::cover!(s.len() < a.len(), "separator shorter than left");
        kani::cover!(s.len() < a.len() && s.len() >= 2 && s[s.len() - 1] & 0xC0 == 0x80,
            "cut rounded up to the end of a multi-byte character");
    }
}

// @harness props=C15 tier=quick timeout=900 mem=12 stubbing=1 replay=native
// @desc &str and String: compare == byte order of the UTF-8 encodings, round trip, min key valid and least, separator is well-formed UTF-8 with a <= s < b and len(s) <= len(a); real compare() does not panic on the separator
// @functions <&str as Key>::{compare,separator,min_encoded_key}, round_up_to_char_boundary, <String as Key>::{compare,separator}, <&str as Value>::from_bytes
// @bound both keys are arbitrary well-formed UTF-8 strings of 0..=5 bytes (one 4-byte character plus one byte)
// @stubs core::str::from_utf8 -> from_utf8_stub (asserts well-formedness by the independent validator utf8_ok, which c15_utf8_stub_equiv proves equal to std's on arbitrary 0..=5 bytes)
// @assumes inputs are well-formed UTF-8 (the type's validity predicate)
#[kani::proof]
#[kani::unwind(7)]
#[kani::stub(core::str::from_utf8, from_utf8_stub)]
fn c15_str_le5() {
    str_case::<5>();
}

// @harness props=C15 tier=thorough timeout=3600 mem=16 stubbing=1 replay=native attempt=1
// @desc as c15_str_le5 with 0..=8 bytes
// @functions <&str as Key>::{compare,separator,min_encoded_key}, round_up_to_char_boundary
// @bound both keys are arbitrary well-formed UTF-8 strings of 0..=8 bytes
// @stubs core::str::from_utf8 -> from_utf8_stub
// @assumes inputs are well-formed UTF-8
#[kani::proof]
#[kani::unwind(10)]
#[kani::stub(core::str::from_utf8, from_utf8_stub)]
fn c15_str_le8() {
    str_case::<8>();
}

// @harness props=C15 tier=quick timeout=1500 mem=12
// @desc the independent validator utf8_ok agrees with core::str::from_utf8(..).is_ok() (justifies the from_utf8 stub)
// @functions core::str::from_utf8 (std), utf8_ok (harness)
// @bound arbitrary byte strings of length 0..=5
#[kani::proof]
#[kani::unwind(8)]
fn c15_utf8_stub_equiv() {
    let ba: [u8; 5] = kani::any();
    let a = &ba[..any_len::<5>()];
    let std_ok = core::str::from_utf8(a).is_ok();
    assert!(std_ok == utf8_ok(a));
    kani::cover!(std_ok && a.len() == 5 && a[0] >= 0xF0, "4-byte character accepted");
    kani::cover!(!std_ok, "rejected");
}

// @harness props=C15 tier=quick timeout=600 mem=8
// @desc round_up_to_char_boundary(s, i) is the least char boundary >= i of a well-formed string (so the cut never splits a character)
// @functions round_up_to_char_boundary
// @bound well-formed UTF-8 of 0..=6 bytes, any index 0..=len
#[kani::proof]
#[kani::unwind(8)]
fn c15_round_up_boundary() {
    let ba: [u8; 6] = kani::any();
    let n = any_len::<6>();
    let a = &ba[..n];
    kani::assume(utf8_ok(a));
    let i: usize = kani::any();
    kani::assume(i <= n);
    let r = round_up_to_char_boundary(a, i);
    assert!(r >= i && r <= n);
    assert!(utf8_ok(&a[..r]), "prefix up to the boundary is well-formed");
    // least: every index in i..r is inside a character
    let mut j = 0usize;
    while j < 6 {
        if j >= i && j < r {
            assert!(a[j] & 0xC0 == 0x80);
        }
        j += 1;
    }
    kani::cover!(r == i + 3, "skipped three continuation bytes");
}

// ---- Option<T> ----------------------------------------------------------------------------

// @harness props=C15 tier=quick timeout=600 mem=8
// @desc Option<u32>: compare == Option order (None < Some), round trip, fixed width 5, separator == left, min key least
// @functions <Option<u32> as Key>::{compare,separator,min_encoded_key}, <Option<u32> as Value>::{as_bytes,from_bytes,fixed_width}
// @bound values arbitrary
#[kani::proof]
#[kani::unwind(8)]
fn c15_option_u32() {
    let a: Option<u32> = kani::any();
    let b: Option<u32> = kani::any();
    let ea = <Option<u32> as Value>::as_bytes(&a);
    let eb = <Option<u32> as Value>::as_bytes(&b);
    assert!(ea.len() == 5 && <Option<u32> as Value>::fixed_width() == Some(5));
    assert!(<Option<u32> as Key>::compare(&ea, &eb) == a.cmp(&b));
    assert!(<Option<u32> as Value>::from_bytes(&ea) == a);
    if a < b {
        let s = <Option<u32> as Key>::separator(&ea, &eb);
        assert!(bytes_eq(&s, &ea), "fixed width option: separator is left");
    }
    let m = <Option<u32> as Key>::min_encoded_key().unwrap();
    assert!(m.len() == 5);
    assert!(<Option<u32> as Key>::compare(&m, &ea) != Ordering::Greater);
    kani::cover!(a.is_none() && b.is_some(), "None below Some");
    core::mem::forget(ea);
    core::mem::forget(eb);
    core::mem::forget(m);
}

/// valid encoding of Option<&[u8]> / Option<&str>: [0] or [1, payload..]
fn opt_valid(e: &[u8], utf8: bool) -> bool {
    if e.len() == 0 {
        return false;
    }
    if e[0] == 0 {
        return e.len() == 1;
    }
    if e[0] != 1 {
        return false;
    }
    !utf8 || utf8_ok(&e[1..])
}

/// value order of Option<bytes> on encodings (independent oracle)
fn opt_order(a: &[u8], b: &[u8]) -> Ordering {
    if a[0] == 0 && b[0] == 0 {
        Ordering::Equal
    } else if a[0] == 0 {
        Ordering::Less
    } else if b[0] == 0 {
        Ordering::Greater
    } else {
        lex(&a[1..], &b[1..])
    }
}

fn option_var_case<K: Key, const M: usize>(utf8: bool) {
    let ba: [u8; M] = kani::any();
    let bb: [u8; M] = kani::any();
    let la: usize = kani::any();
    let lb: usize = kani::any();
    kani::assume(la >= 1 && la <= M && lb >= 1 && lb <= M);
    let a = &ba[..la];
    let b = &bb[..lb];
    kani::assume(opt_valid(a, utf8) && opt_valid(b, utf8));
    assert!(K::compare(a, b) == opt_order(a, b));
    let m = K::min_encoded_key().unwrap();
    assert!(opt_valid(&m, utf8) && opt_order(&m, a) != Ordering::Greater);
    if opt_order(a, b) == Ordering::Less {
        let sep = K::separator(a, b);
        assert!(sep.len() <= a.len() && sep.len() <= M, "separator no longer than left");
        // copy the (possibly heap-allocated, symbolic-length) separator into a local array with
        // concrete indices: running the oracles on the Vec itself exhausts CBMC's array theory
        let mut sb = [0u8; M];
        let mut i = 0usize;
        while i < M {
            if i < sep.len() {
                sb[i] = sep[i];
            }
            i += 1;
        }
        let s = &sb[..sep.len()];
        assert!(opt_valid(s, utf8), "separator is a valid Option encoding");
        assert!(opt_order(a, s) != Ordering::Greater, "left <= separator");
        assert!(opt_order(s, b) == Ordering::Less, "separator < right");
        check_separator::<K>(a, b, s);
        kani::cover!(s.len() < a.len(), "shortened payload behind the tag");
        kani::cover!(a[0] == 0, "left is None");
        core::mem::forget(sep);
    }
    core::mem::forget(m);
}

// @harness props=C15 tier=quick timeout=900 mem=12
// @desc Option<&[u8]>: compare == (None < Some, then byte order); min key valid and least; separator is a valid encoding (tag 0 alone, or tag 1 + payload) with a <= s < b, len(s) <= len(a)
// @functions <Option<&[u8]> as Key>::{compare,separator,min_encoded_key}, <&[u8] as Key>::{compare,separator}
// @bound both encodings arbitrary valid Option<&[u8]> encodings of 1..=5 bytes
#[kani::proof]
#[kani::unwind(7)]
fn c15_option_bytes() {
    option_var_case::<Option<&[u8]>, 5>(false);
}

// @harness props=C15 tier=quick timeout=1200 mem=16 stubbing=1 replay=native
// @desc Option<&str>: as Option<&[u8]>, payloads well-formed UTF-8, separator payload well-formed
// @functions <Option<&str> as Key>::{compare,separator,min_encoded_key}, <&str as Key>::{compare,separator}
// @bound both encodings arbitrary valid Option<&str> encodings of 1..=4 bytes (tag + one 3-byte character)
// @stubs core::str::from_utf8 -> from_utf8_stub
#[kani::proof]
#[kani::unwind(7)]
#[kani::stub(core::str::from_utf8, from_utf8_stub)]
fn c15_option_str() {
    option_var_case::<Option<&str>, 4>(true);
}

// @harness props=C15 tier=thorough timeout=3600 mem=40 stubbing=1 replay=native attempt=1
// @desc as c15_option_str with encodings of 1..=5 bytes (tag + one 4-byte character)
// @functions <Option<&str> as Key>::{compare,separator,min_encoded_key}
// @bound both encodings arbitrary valid Option<&str> encodings of 1..=5 bytes
// @stubs core::str::from_utf8 -> from_utf8_stub
#[kani::proof]
#[kani::unwind(7)]
#[kani::stub(core::str::from_utf8, from_utf8_stub)]
fn c15_option_str_le5() {
    option_var_case::<Option<&str>, 5>(true);
}

// round trip of Option<&[u8]> through as_bytes / from_bytes, payload length case-split
fn opt_rt<const L: usize>() {
    let p: [u8; L] = kani::any();
    let some: Option<&[u8]> = Some(&p[..]);
    let e = <Option<&[u8]> as Value>::as_bytes(&some);
    assert!(e.len() == L + 1 && e[0] == 1);
    match <Option<&[u8]> as Value>::from_bytes(&e) {
        Some(x) => assert!(bytes_eq(x, &p)),
        None => assert!(false),
    }
    core::mem::forget(e);
}

// @harness props=C15 tier=quick timeout=600 mem=8
// @desc Option<&[u8]> round trip: from_bytes(as_bytes(v)) == v for None and Some(payload)
// @functions <Option<&[u8]> as Value>::{as_bytes,from_bytes}
// @bound payload length in {0,1,3} (case split), contents arbitrary
#[kani::proof]
#[kani::unwind(6)]
fn c15_option_bytes_roundtrip() {
    let none: Option<&[u8]> = None;
    let e = <Option<&[u8]> as Value>::as_bytes(&none);
    assert!(e.len() == 1 && e[0] == 0);
    assert!(<Option<&[u8]> as Value>::from_bytes(&e).is_none());
    core::mem::forget(e);
    opt_rt::<0>();
    opt_rt::<1>();
    opt_rt::<3>();
    kani::cover!(true, "done");
}

// ---- tuples -------------------------------------------------------------------------------

// @harness props=C15 tier=quick timeout=600 mem=8
// @desc (u8,u16) and (i32,u8,bool): compare == tuple order, round trip, width, separator == left
// @functions tuple_impl! Key::compare (compare_fixed_impl), Value::{as_bytes,from_bytes} (fixed paths)
// @bound values arbitrary
#[kani::proof]
#[kani::unwind(10)]
fn c15_tuple_fixed() {
    let a: (u8, u16) = kani::any();
    let b: (u8, u16) = kani::any();
    let ea = <(u8, u16) as Value>::as_bytes(&a);
    let eb = <(u8, u16) as Value>::as_bytes(&b);
    assert!(ea.len() == 3);
    assert!(<(u8, u16) as Key>::compare(&ea, &eb) == a.cmp(&b));
    assert!(<(u8, u16) as Value>::from_bytes(&ea) == a);
    if a < b {
        let s = <(u8, u16) as Key>::separator(&ea, &eb);
        assert!(bytes_eq(&s, &ea));
    }
    let c: (i32, u8, bool) = kani::any();
    let d: (i32, u8, bool) = kani::any();
    let ec = <(i32, u8, bool) as Value>::as_bytes(&c);
    let ed = <(i32, u8, bool) as Value>::as_bytes(&d);
    assert!(ec.len() == 6);
    assert!(<(i32, u8, bool) as Key>::compare(&ec, &ed) == c.cmp(&d));
    assert!(<(i32, u8, bool) as Value>::from_bytes(&ec) == c);
    kani::cover!(a < b && a.0 == b.0, "decided by the second field");
    core::mem::forget(ea);
    core::mem::forget(eb);
    core::mem::forget(ec);
    core::mem::forget(ed);
}

// Encodings of (u8,&[u8]) and (&[u8],u8) assembled by hand from the documented layout
// (fixed-size arrays; building them through as_bytes() in the same query exhausts memory):
//   (u8,&[u8])  = [x][payload..]                (final variable field: no length prefix)
//   (&[u8],u8)  = [varint len][payload..][x]
fn tuple_u8_bytes_cmp<const M: usize>() {
    let ba: [u8; M] = kani::any();
    let bb: [u8; M] = kani::any();
    let la: usize = kani::any();
    let lb: usize = kani::any();
    kani::assume(la >= 1 && la <= M && lb >= 1 && lb <= M);
    let a = &ba[..la];
    let b = &bb[..lb];
    let want = if a[0] != b[0] { a[0].cmp(&b[0]) } else { lex(&a[1..], &b[1..]) };
    assert!(<(u8, &[u8]) as Key>::compare(a, b) == want);
    let back = <(u8, &[u8]) as Value>::from_bytes(a);
    assert!(back.0 == a[0] && bytes_eq(back.1, &a[1..]));
    if want == Ordering::Less {
        let s = <(u8, &[u8]) as Key>::separator(a, b);
        check_separator::<(u8, &[u8])>(a, b, &s);
    }
    kani::cover!(want == Ordering::Less && a[0] == b[0], "decided by the variable field");
}

fn tuple_bytes_u8_cmp<const M: usize>() {
    // [len][payload(len)][x] with len <= M
    let ba: [u8; 6] = kani::any();
    let bb: [u8; 6] = kani::any();
    let la = ba[0] as usize;
    let lb = bb[0] as usize;
    kani::assume(la <= M && lb <= M && M + 2 <= 6);
    let a = &ba[..la + 2];
    let b = &bb[..lb + 2];
    let first = lex(&a[1..1 + la], &b[1..1 + lb]);
    let want = if first != Ordering::Equal { first } else { a[1 + la].cmp(&b[1 + lb]) };
    assert!(<(&[u8], u8) as Key>::compare(a, b) == want);
    let back = <(&[u8], u8) as Value>::from_bytes(a);
    assert!(back.1 == a[1 + la] && bytes_eq(back.0, &a[1..1 + la]));
    if want == Ordering::Less {
        let s = <(&[u8], u8) as Key>::separator(a, b);
        check_separator::<(&[u8], u8)>(a, b, &s);
    }
    kani::cover!(first == Ordering::Equal && want == Ordering::Less, "decided by the trailing fixed field");
}

// @harness props=C15 tier=quick timeout=900 mem=12
// @desc (u8,&[u8]): compare == tuple order (first field, then byte order of the rest), from_bytes splits the fields as documented (final variable field has no length prefix), separator contract
// @functions tuple_impl! compare_variable_impl / from_bytes_variable_impl, parse_lens, Key::separator (default)
// @bound both encodings arbitrary, 1..=5 bytes
#[kani::proof]
#[kani::unwind(7)]
fn c15_tuple_u8_bytes() {
    tuple_u8_bytes_cmp::<5>();
}

// @harness props=C15 tier=quick timeout=900 mem=12
// @desc (&[u8],u8): compare == tuple order on encodings [varint len][payload][u8], from_bytes splits the fields as documented, separator contract
// @functions tuple_impl! compare_variable_impl / from_bytes_variable_impl, parse_lens, decode_varint_len
// @bound both encodings arbitrary valid ones with payload length 0..=4 (one-byte varint)
#[kani::proof]
#[kani::unwind(7)]
fn c15_tuple_bytes_u8() {
    tuple_bytes_u8_cmp::<4>();
}

fn tuple_enc_case<const LA: usize>() {
    let x: u8 = kani::any();
    let pa: [u8; LA] = kani::any();
    let a: (u8, &[u8]) = (x, &pa[..]);
    let ea = <(u8, &[u8]) as Value>::as_bytes(&a);
    assert!(ea.len() == 1 + LA && ea[0] == x && bytes_eq(&ea[1..], &pa));
    core::mem::forget(ea);
    let b: (&[u8], u8) = (&pa[..], x);
    let eb = <(&[u8], u8) as Value>::as_bytes(&b);
    assert!(eb.len() == LA + 2 && eb[0] as usize == LA && eb[LA + 1] == x && bytes_eq(&eb[1..1 + LA], &pa));
    core::mem::forget(eb);
}

// @harness props=C15 tier=quick timeout=900 mem=12
// @desc tuple encoders emit the documented layout: (u8,&[u8]) = [x][payload]; (&[u8],u8) = [varint len][payload][x]
// @functions tuple_impl! as_bytes_impl, serialize_tuple_elements_variable, encode_varint_len
// @bound payload length 0, 1, 3 (case split), contents arbitrary
#[kani::proof]
#[kani::unwind(7)]
fn c15_tuple_encode() {
    tuple_enc_case::<0>();
    tuple_enc_case::<1>();
    tuple_enc_case::<3>();
    kani::cover!(true, "done");
}

// @harness props=C15 tier=quick timeout=600 mem=8
// @desc varint length codec: decode(encode(n)) == (n, bytes written) for every n < 2^32, in particular across 253/254 and 65535/65536
// @functions complex_types::{encode_varint_len,decode_varint_len}
// @bound n < 2^32 (the documented limit of the u32 form)
#[kani::proof]
#[kani::unwind(8)]
fn c15_varint_roundtrip() {
    let n: usize = kani::any();
    kani::assume(n <= u32::MAX as usize);
    let mut out: Vec<u8> = Vec::with_capacity(8);
    crate::complex_types::encode_varint_len(n, &mut out);
    let (m, used) = crate::complex_types::decode_varint_len(&out);
    assert!(m == n);
    assert!(used == out.len());
    assert!(used == if n < 254 { 1 } else if n <= 65535 { 3 } else { 5 });
    kani::cover!(n == 254, "boundary 254");
    kani::cover!(n == 65536, "boundary 65536");
    core::mem::forget(out);
}

// ---- [T; N] -------------------------------------------------------------------------------

// @harness props=C15 tier=quick timeout=600 mem=8
// @desc [u16;2]: compare == array order, round trip, separator == left (fixed width)
// @functions <[T;N] as Key>::{compare,separator}, <[T;N] as Value>::{as_bytes,from_bytes} (fixed-width paths)
// @bound values arbitrary
#[kani::proof]
#[kani::unwind(8)]
fn c15_array_fixed() {
    let a: [u16; 2] = kani::any();
    let b: [u16; 2] = kani::any();
    let ea = <[u16; 2] as Value>::as_bytes(&a);
    let eb = <[u16; 2] as Value>::as_bytes(&b);
    assert!(ea.len() == 4);
    assert!(<[u16; 2] as Key>::compare(&ea, &eb) == a.cmp(&b));
    assert!(<[u16; 2] as Value>::from_bytes(&ea) == a);
    if a < b {
        let s = <[u16; 2] as Key>::separator(&ea, &eb);
        assert!(bytes_eq(&s, &ea));
    }
    kani::cover!(a < b && a[0] == b[0], "decided by the second element");
    core::mem::forget(ea);
    core::mem::forget(eb);
}

/// well-formedness of an encoding of [var;2]: header present, offsets monotone and in range
fn arr2_valid(d: &[u8]) -> bool {
    if d.len() < 8 {
        return false;
    }
    let e0 = u32::from_le_bytes([d[0], d[1], d[2], d[3]]) as usize;
    let e1 = u32::from_le_bytes([d[4], d[5], d[6], d[7]]) as usize;
    8 <= e0 && e0 <= e1 && e1 == d.len()
}

fn arr2_elem(d: &[u8], i: usize) -> &[u8] {
    let e0 = u32::from_le_bytes([d[0], d[1], d[2], d[3]]) as usize;
    let e1 = u32::from_le_bytes([d[4], d[5], d[6], d[7]]) as usize;
    if i == 0 { &d[8..e0] } else { &d[e0..e1] }
}

fn arr2_order(a: &[u8], b: &[u8]) -> Ordering {
    let c = lex(arr2_elem(a, 0), arr2_elem(b, 0));
    if c != Ordering::Equal { c } else { lex(arr2_elem(a, 1), arr2_elem(b, 1)) }
}

/// encoding of [&[u8];2] with element lengths (L0, L1), assembled from the documented format
/// (two u32 LE end offsets, then the elements) into a fixed array; contents symbolic
fn arr2_any<const L0: usize, const L1: usize, const T: usize>() -> [u8; T] {
    let mut d: [u8; T] = kani::any();
    let e0 = ((8 + L0) as u32).to_le_bytes();
    let e1 = ((8 + L0 + L1) as u32).to_le_bytes();
    d[0] = e0[0];
    d[1] = e0[1];
    d[2] = e0[2];
    d[3] = e0[3];
    d[4] = e1[0];
    d[5] = e1[1];
    d[6] = e1[2];
    d[7] = e1[3];
    d
}

fn arr2_sep_case<const A0: usize, const A1: usize, const TA: usize, const B0: usize, const B1: usize, const TB: usize>() {
    let ea = arr2_any::<A0, A1, TA>();
    let eb = arr2_any::<B0, B1, TB>();
    let want = arr2_order(&ea, &eb);
    assert!(<[&[u8]; 2] as Key>::compare(&ea, &eb) == want, "compare is element-wise byte order");
    if want == Ordering::Less {
        let sep = <[&[u8]; 2] as Key>::separator(&ea, &eb);
        assert!(sep.len() <= ea.len(), "separator no longer than left");
        // copy into a local array with concrete indices before running the oracles (a heap
        // result of symbolic length exhausts CBMC's array theory)
        let mut sb = [0u8; TA];
        let mut i = 0usize;
        while i < TA {
            if i < sep.len() {
                sb[i] = sep[i];
            }
            i += 1;
        }
        let s = &sb[..sep.len()];
        assert!(arr2_valid(s), "separator is a well-formed array encoding");
        assert!(arr2_order(&ea, s) != Ordering::Greater, "left <= separator");
        assert!(arr2_order(s, &eb) == Ordering::Less, "separator < right");
        // the real comparator accepts it without panicking and agrees
        assert!(<[&[u8]; 2] as Key>::compare(&ea, s) != Ordering::Greater);
        assert!(<[&[u8]; 2] as Key>::compare(s, &eb) == Ordering::Less);
        kani::cover!(s.len() < ea.len(), "array separator shortened");
        core::mem::forget(sep);
    }
}

macro_rules! arr2_harness {
    ($name:ident, $a0:literal, $a1:literal, $b0:literal, $b1:literal) => {
        #[kani::proof]
        #[kani::unwind(14)]
        fn $name() {
            arr2_sep_case::<$a0, $a1, { 8 + $a0 + $a1 }, $b0, $b1, { 8 + $b0 + $b1 }>();
        }
    };
}

// @harness props=C15 tier=quick timeout=1200 mem=16
// @desc [&[u8];2]: compare == element-wise byte order on hand-assembled encodings; separator is a well-formed array encoding (monotone in-range end offsets) with a <= s < b and len(s) <= len(a); the real comparator does not panic on it; the shortened-separator path (element cut + tail replaced by the minimum) is covered
// @functions <[T;N] as Key>::{compare,separator}, array_element, array_end_offset, <&[u8] as Key>::{compare,separator,min_encoded_key}
// @bound element lengths left (2,0), right (2,0); contents arbitrary
arr2_harness!(c15_array_var_l20_r20, 2, 0, 2, 0);

// @harness props=C15 tier=quick timeout=1200 mem=16 optcover=shortened
// @desc as c15_array_var_l20_r20 for a shape in which the separator falls back to left (first elements of different length)
// @functions <[T;N] as Key>::{compare,separator}, array_element, array_end_offset
// @bound element lengths left (0,3), right (1,1); contents arbitrary
arr2_harness!(c15_array_var_l03_r11, 0, 3, 1, 1);

// @harness props=C15 tier=thorough timeout=3600 mem=44 attempt=1
// @desc as c15_array_var_l20_r20, larger shapes (attempted: exhausted 16 GB in the quick tier)
// @functions <[T;N] as Key>::{compare,separator}, array_element, array_end_offset
// @bound element lengths left (2,1) right (2,1); left (2,2) right (1,0); contents arbitrary
arr2_harness!(c15_array_var_l21_r21, 2, 1, 2, 1);
arr2_harness!(c15_array_var_l22_r10, 2, 2, 1, 0);

fn arr2_rt_case<const L0: usize, const L1: usize>() {
    let a0: [u8; L0] = kani::any();
    let a1: [u8; L1] = kani::any();
    let va: [&[u8]; 2] = [&a0[..], &a1[..]];
    let ea = <[&[u8]; 2] as Value>::as_bytes(&va);
    assert!(arr2_valid(&ea), "encoder emits the documented layout");
    assert!(bytes_eq(arr2_elem(&ea, 0), &a0) && bytes_eq(arr2_elem(&ea, 1), &a1));
    let back = <[&[u8]; 2] as Value>::from_bytes(&ea);
    assert!(bytes_eq(back[0], &a0) && bytes_eq(back[1], &a1));
    core::mem::forget(ea);
}

// @harness props=C15 tier=quick timeout=1200 mem=16
// @desc [&[u8];2] round trip: as_bytes emits [end0][end1][e0][e1] with u32 LE end offsets; from_bytes returns the elements
// @functions <[T;N] as Value>::{as_bytes,from_bytes} (variable-width paths)
// @bound element lengths (2,1) and (0,3); contents arbitrary
#[kani::proof]
#[kani::unwind(14)]
fn c15_array_var_roundtrip() {
    arr2_rt_case::<2, 1>();
    arr2_rt_case::<0, 3>();
    kani::cover!(true, "done");
}

// negative twin: the separator contract harness must be able to fail
// @harness props=C15 tier=quick timeout=600 mem=8 expect=fail
// @desc negative twin of c15_bytes_le5: claims separator < left, which is false
// @functions <&[u8] as Key>::separator
// @bound as c15_bytes_le5
#[kani::proof]
#[kani::unwind(7)]
fn c15_twin_bytes_must_fail() {
    let ba: [u8; 5] = kani::any();
    let bb: [u8; 5] = kani::any();
    let a = &ba[..any_len::<5>()];
    let b = &bb[..any_len::<5>()];
    if lex(a, b) == Ordering::Less {
        let s = <&[u8] as Key>::separator(a, b);
        assert!(lex(&s, a) == Ordering::Less);
    }
}
