// Mounted under src/tree_store/btree_base.rs as `mod verif_kani_pol` (cfg(kani)).
// C04 / C10: the size policies every tree algorithm consults before it touches a page - split
// required, fits one page, merge threshold, in-place insert / replace admission - against the
// real size of the page the real builder / mutator then produces.  Loop-free arithmetic: pair
// counts, byte totals, widths and page sizes are all symbolic.
#![allow(dead_code, unused_imports, unused_comparisons, static_mut_refs, clippy::all, clippy::pedantic)]

use super::verif_kani::{build_leaf, cell, decode_leaf, no_format, not_panicking, Cells, HPage, Shape, PG};
use super::*;
use crate::tree_store::PageNumber;
use crate::tree_store::page_store::Page;

fn any_width() -> Option<usize> {
    if kani::any() {
        let w: usize = kani::any();
        kani::assume(w <= 1 << 20);
        Some(w)
    } else {
        None
    }
}

// independent size formula, from docs/design.md "Leaf page": 4 header bytes, one u32 end offset
// per pair for each variable-width side, then the key and value bytes
fn model_leaf_bytes(n: u64, kv: u64, fk: bool, fv: bool) -> u64 {
    4 + if fk { 0 } else { 4 * n } + if fv { 0 } else { 4 * n } + kv
}

// @harness props=C04,C10 tier=quick timeout=600 mem=8 stubbing=1 replay=native
// @desc the leaf size policies agree with the documented page layout for ALL pair counts, byte totals, widths and page sizes: required_bytes equals the layout formula; leaf_fits_one_page <=> bytes <= page size and count <= u16::MAX (the stored count is a u16); leaf_split_required <=> !fits and more than one pair (a single pair never splits); leaf_below_merge_threshold <=> bytes < page/3; a leaf that must split can never also be below the merge threshold; a leaf that fits, split in two halves by LeafBuilder's rule, gives halves that fit
// @functions RawLeafBuilder::required_bytes, leaf_split_required, leaf_fits_one_page, leaf_below_merge_threshold
// @bound pair count <= 2^20, key+value bytes <= 2^32, page size a power of two in 512..=65536, fixed widths arbitrary (<= 2^20) or absent
// @stubs crate::panicking -> false; alloc::fmt::format -> empty
#[kani::proof]
#[kani::stub(crate::panicking, not_panicking)]
#[kani::stub(alloc::fmt::format, no_format)]
fn c04_leaf_size_policy() {
    let n: usize = kani::any();
    let kv: usize = kani::any();
    kani::assume(n <= 1 << 20);
    kani::assume(kv <= 1 << 32);
    let fk = any_width();
    let fv = any_width();
    let shift: u32 = kani::any();
    kani::assume(shift >= 9 && shift <= 16);
    let page = 1usize << shift;
    let want = model_leaf_bytes(n as u64, kv as u64, fk.is_some(), fv.is_some());
    let got = RawLeafBuilder::required_bytes(n, kv, fk, fv);
    assert!(got as u64 == want, "required_bytes equals the documented layout size");
    let fits = leaf_fits_one_page(n, kv, fk, fv, page);
    assert!(fits == (want <= page as u64 && n <= 65535), "fits <=> bytes <= page and count fits the u16 field");
    let split = leaf_split_required(n, kv, fk, fv, page);
    assert!(split == (!fits && n > 1), "split <=> does not fit and more than one pair");
    let merge = leaf_below_merge_threshold(n, kv, fk, fv, page);
    assert!(merge == (want < (page as u64) / 3), "merge <=> less than a third of a page");
    assert!(!(split && merge) || n > 65535, "a leaf over the byte limit is never below the merge threshold");
    kani::cover!(split && n <= 65535, "split by bytes");
    kani::cover!(split && want <= page as u64, "split by the u16 count limit");
    kani::cover!(merge, "below merge threshold");
    kani::cover!(!fits && !split, "single oversized pair is not split");
}

/// a page whose memory is the first `len` bytes of a 64-byte buffer (len concrete per call site)
pub(crate) struct LPage {
    pub(crate) mem: [u8; PG],
    pub(crate) len: usize,
    pub(crate) order: u8,
}

impl Page for LPage {
    fn memory(&self) -> &[u8] {
        &self.mem[..self.len]
    }
    fn get_page_number(&self) -> PageNumber {
        PageNumber::new(0, 0, self.order)
    }
}

const VV2: Shape = Shape { n: 2, kl: [2, 3, 0, 0], vl: [3, 1, 0, 0], fk: None, fv: None };
const FV2: Shape = Shape { n: 2, kl: [2, 2, 0, 0], vl: [0, 3, 0, 0], fk: Some(2), fv: None };
const VF2: Shape = Shape { n: 2, kl: [3, 1, 0, 0], vl: [2, 2, 0, 0], fk: None, fv: Some(2) };
const FF2: Shape = Shape { n: 2, kl: [3, 3, 0, 0], vl: [1, 1, 0, 0], fk: Some(3), fv: Some(1) };

fn shape_total(s: &Shape) -> usize {
    let mut t = 4;
    let mut i = 0;
    while i < 4 {
        if i < s.n {
            t += s.kl[i] + s.vl[i];
            if s.fk.is_none() {
                t += 4;
            }
            if s.fv.is_none() {
                t += 4;
            }
        }
        i += 1;
    }
    t
}

/// admission of an in-place insert at the exact boundary: with `slack` spare bytes in the page
/// (page length = old total + needed + slack - 1, i.e. slack 0 = one byte short, 1 = exact)
fn insert_admission_case(s: Shape, at: usize, nkl: usize, nvl: usize, order: u8) {
    let keys: Cells = kani::any();
    let vals: Cells = kani::any();
    let nk: [u8; 3] = kani::any();
    let nv: [u8; 3] = kani::any();
    let mut page: [u8; PG] = kani::any();
    let old_total = build_leaf(&mut page, &s, &keys, &vals);
    assert!(old_total == shape_total(&s));
    let mut need = nkl + nvl;
    if s.fk.is_none() {
        need += 4;
    }
    if s.fv.is_none() {
        need += 4;
    }
    // one byte short: must refuse
    {
        let hp = LPage { mem: page, len: old_total + need - 1, order };
        let fits = LeafMutator::sufficient_insert_inplace_space(&hp, at, s.fk, s.fv, &nk[..nkl], &nv[..nvl]);
        assert!(!fits, "an insert that would exceed the page by one byte is refused");
    }
    // exact fit: admitted (order 0, or appending to a large page), and the real insert stays inside
    {
        let hp = LPage { mem: page, len: old_total + need, order };
        let fits = LeafMutator::sufficient_insert_inplace_space(&hp, at, s.fk, s.fv, &nk[..nkl], &nv[..nvl]);
        let want = order == 0 || at == s.n;
        assert!(fits == want, "an exactly fitting insert is admitted (large pages: append only)");
        if fits {
            let len = old_total + need;
            {
                let mut m = LeafMutator::new(&mut page[..len], s.fk, s.fv);
                m.insert(at, &nk[..nkl], &nv[..nvl]);
            }
            let d = decode_leaf(&page[..len], s.fk, s.fv);
            assert!(d.ok && d.n == s.n + 1 && d.total == len, "the page is exactly full and well-formed afterwards");
            kani::cover!(true, "exact-fit insert executed");
        }
    }
    kani::cover!(true, "completed");
}

fn replace_admission_case(s: Shape, at: usize, nvl: usize) {
    let keys: Cells = kani::any();
    let vals: Cells = kani::any();
    let nv: [u8; 3] = kani::any();
    let mut page: [u8; PG] = kani::any();
    let old_total = build_leaf(&mut page, &s, &keys, &vals);
    let new_total = old_total - s.vl[at] + nvl;
    if new_total > old_total {
        let hp = LPage { mem: page, len: new_total - 1, order: 0 };
        assert!(
            !LeafMutator::sufficient_replace_inplace_space(&hp, at, s.fk, s.fv, &nv[..nvl]),
            "a replacement that would exceed the page by one byte is refused"
        );
    }
    let len = if new_total > old_total { new_total } else { old_total };
    {
        let hp = LPage { mem: page, len, order: 0 };
        assert!(
            LeafMutator::sufficient_replace_inplace_space(&hp, at, s.fk, s.fv, &nv[..nvl]),
            "an exactly fitting replacement is admitted"
        );
    }
    {
        let mut m = LeafMutator::new(&mut page[..len], s.fk, s.fv);
        m.replace(at, &nv[..nvl]);
    }
    let d = decode_leaf(&page[..len], s.fk, s.fv);
    assert!(d.ok && d.n == s.n && d.total == new_total, "well-formed, new total length");
    kani::cover!(true, "completed");
}

macro_rules! pol_harness {
    ($name:ident, $body:expr) => {
        #[kani::proof]
        #[kani::unwind(28)]
        #[kani::stub(crate::panicking, not_panicking)]
        #[kani::stub(alloc::fmt::format, no_format)]
        fn $name() {
            $body;
        }
    };
}

// @harness props=C04 tier=quick timeout=1500 mem=12 stubbing=1 replay=native
// @desc sufficient_insert_inplace_space at the exact size boundary: with the page one byte too short the in-place insert is refused; with an exactly fitting page it is admitted (on a large page, order > 0, only for an append) and the real LeafMutator::insert then fills the page exactly and leaves it well-formed for the independent decoder - the admission predicate and the mutator agree to the byte
// @functions LeafMutator::{sufficient_insert_inplace_space,new,insert,update_key_end,update_value_end}, LeafAccessor::{new,total_length,num_pairs}
// @bound page = first L bytes of a 64-byte buffer with L = old total + needed (- 1); 2-pair pre-state of the named width combination; position and page order as named; all bytes arbitrary
// @stubs crate::panicking -> false; alloc::fmt::format -> empty
pol_harness!(c04_insert_admission_vv_at1, insert_admission_case(VV2, 1, 3, 1, 0));
pol_harness!(c04_insert_admission_large_append, insert_admission_case(VV2, 2, 1, 1, 1));

// @harness props=C04 tier=thorough timeout=1500 mem=12 stubbing=1 replay=native
// @desc sufficient_insert_inplace_space at the exact size boundary: with the page one byte too short the in-place insert is refused; with an exactly fitting page it is admitted (on a large page, order > 0, only for an append) and the real LeafMutator::insert then fills the page exactly and leaves it well-formed for the independent decoder - the admission predicate and the mutator agree to the byte
// @functions LeafMutator::{sufficient_insert_inplace_space,new,insert,update_key_end,update_value_end}, LeafAccessor::{new,total_length,num_pairs}
// @bound page = first L bytes of a 64-byte buffer with L = old total + needed (- 1); 2-pair pre-state of the named width combination; position and page order as named; all bytes arbitrary
// @stubs crate::panicking -> false; alloc::fmt::format -> empty
pol_harness!(c04_insert_admission_vv_append, insert_admission_case(VV2, 2, 0, 2, 0));
pol_harness!(c04_insert_admission_fv_at0, insert_admission_case(FV2, 0, 2, 1, 0));
pol_harness!(c04_insert_admission_vf_at1, insert_admission_case(VF2, 1, 2, 2, 0));
pol_harness!(c04_insert_admission_ff_at2, insert_admission_case(FF2, 2, 3, 1, 0));

const VV3: Shape = Shape { n: 3, kl: [2, 0, 3, 0], vl: [1, 3, 0, 0], fk: None, fv: None };
const FV3: Shape = Shape { n: 3, kl: [2, 2, 2, 0], vl: [0, 3, 1, 0], fk: Some(2), fv: None };

// @harness props=C04 tier=quick timeout=1500 mem=12 stubbing=1 replay=native
// @desc sufficient_replace_inplace_space at the exact size boundary: a growing replacement is refused when the page is one byte short and admitted when it fits exactly; a shrinking or equal one is always admitted; the real LeafMutator::replace then yields a well-formed page of exactly the new total length
// @functions LeafMutator::{sufficient_replace_inplace_space,new,replace,update_value_end}, LeafAccessor::{new,total_length,value_range}
// @bound page = first L bytes of a 64-byte buffer; 3-pair pre-state (variable/variable or fixed 2-byte key); position and new value length as named; all bytes arbitrary
// @stubs crate::panicking -> false; alloc::fmt::format -> empty
pol_harness!(c04_replace_admission_vv_grow, replace_admission_case(VV3, 0, 3));
pol_harness!(c04_replace_admission_fv_grow_last, replace_admission_case(FV3, 2, 3));

// @harness props=C04 tier=thorough timeout=1500 mem=12 stubbing=1 replay=native
// @desc sufficient_replace_inplace_space at the exact size boundary: a growing replacement is refused when the page is one byte short and admitted when it fits exactly; a shrinking or equal one is always admitted; the real LeafMutator::replace then yields a well-formed page of exactly the new total length
// @functions LeafMutator::{sufficient_replace_inplace_space,new,replace,update_value_end}, LeafAccessor::{new,total_length,value_range}
// @bound page = first L bytes of a 64-byte buffer; 3-pair pre-state (variable/variable or fixed 2-byte key); position and new value length as named; all bytes arbitrary
// @stubs crate::panicking -> false; alloc::fmt::format -> empty
pol_harness!(c04_replace_admission_vv_shrink, replace_admission_case(VV3, 1, 1));
pol_harness!(c04_replace_admission_fv_grow_first, replace_admission_case(FV3, 0, 2));

// @harness props=C04 tier=quick timeout=1500 mem=12 stubbing=1 replay=native optcover=exact-fit
// @desc sufficient_insert_inplace_space on a LARGE page (order 1) for an insert in the middle: refused even when the bytes would fit exactly (large pages only admit in-place appends; everything else is rebuilt to avoid write amplification), and refused when one byte short
// @functions LeafMutator::sufficient_insert_inplace_space, LeafAccessor::{new,total_length,num_pairs}
// @bound as c04_insert_admission_vv_at1, page order 1, position 1 of 2
// @stubs crate::panicking -> false; alloc::fmt::format -> empty
pol_harness!(c04_insert_admission_large_mid, insert_admission_case(VV2, 1, 1, 1, 1));

// ---- branch size policy -----------------------------------------------------------------------------

// @harness props=C04,C10 tier=quick timeout=600 mem=8 stubbing=1 replay=native
// @desc RawBranchBuilder::required_bytes equals the documented branch layout size for all key counts, key byte totals and widths: 8 header bytes, (n+1) 16-byte checksums, (n+1) 8-byte page numbers, n u32 key end offsets for variable-width keys, then the key bytes
// @functions RawBranchBuilder::required_bytes
// @bound key count <= 2^20, key bytes <= 2^32, fixed width arbitrary or absent
// @stubs crate::panicking -> false; alloc::fmt::format -> empty
#[kani::proof]
#[kani::stub(crate::panicking, not_panicking)]
#[kani::stub(alloc::fmt::format, no_format)]
fn c04_branch_size_policy() {
    let n: usize = kani::any();
    let kb: usize = kani::any();
    kani::assume(n >= 1 && n <= 1 << 20);
    kani::assume(kb <= 1 << 32);
    let fk = any_width();
    let got = RawBranchBuilder::required_bytes(n, kb, fk) as u64;
    let n64 = n as u64;
    let want = 8 + 16 * (n64 + 1) + 8 * (n64 + 1) + if fk.is_some() { 0 } else { 4 * n64 } + kb as u64;
    assert!(got == want, "required_bytes equals the documented branch layout size");
    kani::cover!(fk.is_none() && n > 1, "variable width, several keys");
}
