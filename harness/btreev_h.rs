// Mounted under src/tree_store/btree.rs as `mod verif_kani` (cfg(kani)); runs in the `nodebug`
// overlay flavor (PageImpl without debug bookkeeping).
// C12: top-down checksum verification (RawBtree::verify_checksum) on trees of depth <= 2 with
// ARBITRARY page contents: it returns true only if every reachable page's checksum can be
// computed and equals the checksum stored for it by its parent (or the root header).
#![allow(dead_code, unused_imports, unused_comparisons, static_mut_refs, clippy::all, clippy::pedantic)]

use super::*;
use crate::tree_store::btree_base::verif_kani::{HPage, PG};
use crate::tree_store::btree_base::{BRANCH, Checksum, LEAF, RawBranchBuilder};
use crate::tree_store::{PageHint, PageNumber, PageResolver};

// separate statics (no nested arrays: see DESIGN.md section 2 on Kani and nested-array rows)
static mut PAGE0: [u8; PG] = [0; PG];
static mut PAGE1: [u8; PG] = [0; PG];
static mut PAGE2: [u8; PG] = [0; PG];

fn page_ref(i: usize) -> &'static [u8; PG] {
    unsafe {
        match i {
            0 => &PAGE0,
            1 => &PAGE1,
            _ => &PAGE2,
        }
    }
}
static mut FETCHED: [u32; 3] = [0; 3];
// checksum stub: one symbolic constant per page - the page fetched last (verify_checksum_helper
// computes a page's checksum right after fetching it)
static mut CK: [u128; 3] = [0; 3];
static mut LAST_FETCHED: usize = 0;

fn stub_checksum(_data: &[u8]) -> Checksum {
    unsafe { CK[LAST_FETCHED] }
}

#[cfg(not(debug_assertions))]
fn stub_get_page(_this: &PageResolver, page_number: PageNumber, _hint: PageHint) -> Result<PageImpl> {
    let i = page_number.page_index as usize;
    assert!(page_number.region == 0 && page_number.page_order == 0 && i < 3, "only pages of the tree are fetched");
    unsafe {
        FETCHED[i] += 1;
        LAST_FETCHED = i;
        // Arc::new(array) + unsizing keeps the bytes' constants; Arc::from(slice) is a memcpy that loses them
        let arr: Arc<[u8; PG]> = Arc::new(*page_ref(i));
        let mem: Arc<[u8]> = arr;
        Ok(crate::tree_store::page_store::verif_page_impl(mem, page_number))
    }
}

// Sequence-numbered variant: the k-th fetch returns page k (root, first child, second child), so
// that the page's type byte stays a constant for the solver; that the code really asks for
// page k at its k-th fetch is ASSERTED (a different order fails the harness, it is not assumed).
static mut SEQ: usize = 0;

#[cfg(not(debug_assertions))]
fn stub_get_page_seq(_this: &PageResolver, page_number: PageNumber, _hint: PageHint) -> Result<PageImpl> {
    unsafe {
        let k = SEQ;
        SEQ += 1;
        assert!(k < 3, "at most three pages are fetched");
        assert!(
            page_number.region == 0 && page_number.page_order == 0 && page_number.page_index as usize == k,
            "the k-th fetch asks for the root, then the children in order"
        );
        FETCHED[k] += 1;
        LAST_FETCHED = k;
        let arr: Arc<[u8; PG]> = match k {
            0 => Arc::new(PAGE0),
            1 => Arc::new(PAGE1),
            _ => Arc::new(PAGE2),
        };
        let mem: Arc<[u8]> = arr;
        Ok(crate::tree_store::page_store::verif_page_impl(mem, page_number))
    }
}

#[cfg(debug_assertions)]
fn stub_get_page_seq(_this: &PageResolver, _page_number: PageNumber, _hint: PageHint) -> Result<PageImpl> {
    unreachable!("this harness family runs in the nodebug flavor")
}

#[cfg(debug_assertions)]
fn stub_get_page(_this: &PageResolver, _page_number: PageNumber, _hint: PageHint) -> Result<PageImpl> {
    unreachable!("this harness family runs in the nodebug flavor")
}

fn no_format(_args: core::fmt::Arguments<'_>) -> alloc::string::String {
    alloc::string::String::new()
}

fn not_panicking() -> bool {
    false
}

// the pages' Arcs are leaked instead of freed (deallocation is not what is being verified)
fn stub_arc_drop_slow<T: ?Sized, A: core::alloc::Allocator>(_this: &mut Arc<T, A>) {}

// whole-function checksum stubs for the every-child harness: the pages are well-formed, so the
// real functions return Ok(hash of the used prefix) - here the per-page symbolic constant.  What
// leaf_checksum / branch_checksum do on arbitrary pages is decided by c12_checksum_total and
// c12_verify_single_page_tree*, not here.
fn stub_leaf_ck<T: crate::tree_store::page_store::Page>(_page: &T, _k: Option<usize>, _v: Option<usize>) -> core::result::Result<Checksum, StorageError> {
    Ok(unsafe { CK[LAST_FETCHED] })
}

fn stub_branch_ck<T: crate::tree_store::page_store::Page>(_page: &T, _k: Option<usize>) -> core::result::Result<Checksum, StorageError> {
    Ok(unsafe { CK[LAST_FETCHED] })
}

fn put16(p: &mut [u8; PG], off: usize, v: u128) {
    let b = v.to_le_bytes();
    p[off] = b[0];
    p[off + 1] = b[1];
    p[off + 2] = b[2];
    p[off + 3] = b[3];
    p[off + 4] = b[4];
    p[off + 5] = b[5];
    p[off + 6] = b[6];
    p[off + 7] = b[7];
    p[off + 8] = b[8];
    p[off + 9] = b[9];
    p[off + 10] = b[10];
    p[off + 11] = b[11];
    p[off + 12] = b[12];
    p[off + 13] = b[13];
    p[off + 14] = b[14];
    p[off + 15] = b[15];
}

fn put8(p: &mut [u8; PG], off: usize, b: [u8; 8]) {
    p[off] = b[0];
    p[off + 1] = b[1];
    p[off + 2] = b[2];
    p[off + 3] = b[3];
    p[off + 4] = b[4];
    p[off + 5] = b[5];
    p[off + 6] = b[6];
    p[off + 7] = b[7];
}

fn leaf_ok(i: usize, fk: Option<usize>, fv: Option<usize>) -> bool {
    // "the checksummed range of this leaf can be computed" - through the real leaf_checksum,
    // whose totality and range are decided separately (c12_checksum_total, c10_leaf_build_*)
    let hp = HPage { mem: *page_ref(i), order: 0 };
    let r = crate::tree_store::btree_base::leaf_checksum(&hp, fk, fv);
    let ok = r.is_ok();
    core::mem::forget(r);
    ok
}

fn any_widths() -> (Option<usize>, Option<usize>) {
    let fk = if kani::any() { Some(2usize) } else { None };
    let fv = if kani::any() { Some(1usize) } else { None };
    (fk, fv)
}

// @harness props=C12 tier=quick timeout=1800 mem=24 stubbing=1 flavor=nodebug replay=scenario:page_alter
// @desc RawBtree::verify_checksum on a tree whose root is a single page with ARBITRARY contents: it returns Ok(true) only if the page is a leaf whose checksummed range can be computed and whose checksum equals the one stored in the root header; a leaf whose count/offsets are so damaged that no checksum can be computed, a page of unknown type, or a mismatching checksum all yield Ok(false); nothing panics
// @functions RawBtree::{new,verify_checksum,verify_checksum_helper}, leaf_checksum, branch_checksum, LeafAccessor::*, BranchAccessor::*
// @bound one 64-byte LEAF root page with arbitrary bytes after the type byte; variable-width keys and values; expected checksum arbitrary; profile without debug assertions
// @stubs PageResolver::get_page -> page from the harness table; xxh3_checksum -> per-page symbolic constant; alloc::fmt::format -> empty; crate::panicking -> false
#[kani::proof]
#[kani::unwind(2)]
#[kani::stub(PageResolver::get_page, stub_get_page)]
#[kani::stub(crate::tree_store::page_store::xxh3_checksum, stub_checksum)]
#[kani::stub(alloc::fmt::format, no_format)]
#[kani::stub(crate::panicking, not_panicking)]
fn c12_verify_single_page_tree() {
    // variable-width keys and values: both offset tables are read from the (arbitrary) page
    single_page_case(LEAF, None, None);
}

// @harness props=C12 tier=quick timeout=1800 mem=24 stubbing=1 flavor=nodebug replay=scenario:page_alter
// @desc as c12_verify_single_page_tree for fixed-width keys (2) and values (1), and for root pages whose type byte is not a page type (0x00, 0xFF): never verified
// @functions RawBtree::{verify_checksum,verify_checksum_helper}, leaf_checksum
// @bound one 64-byte root page, arbitrary bytes after the (concrete) type byte
// @stubs as c12_verify_single_page_tree
#[kani::proof]
#[kani::unwind(2)]
#[kani::stub(PageResolver::get_page, stub_get_page)]
#[kani::stub(crate::tree_store::page_store::xxh3_checksum, stub_checksum)]
#[kani::stub(alloc::fmt::format, no_format)]
#[kani::stub(crate::panicking, not_panicking)]
fn c12_verify_single_page_tree_fixed() {
    let kind: u8 = kani::any();
    match kind {
        0 => single_page_case(LEAF, Some(2), Some(1)),
        1 => single_page_case(0, None, None),
        _ => single_page_case(0xFF, None, None),
    }
}

fn single_page_case(type_byte: u8, fk: Option<usize>, fv: Option<usize>) {
    let mut p: [u8; PG] = kani::any();
    p[0] = type_byte;
    p[1] = 0;
    unsafe {
        PAGE0 = p;
        CK = [kani::any(), kani::any(), kani::any()];
    }
    let expected: Checksum = kani::any();
    let mem = Arc::new(crate::tree_store::verif_literal_mem());
    let tree = RawBtree::new(
        Some(BtreeHeader::new(PageNumber::new(0, 0, 0), expected, 1)),
        fk,
        fv,
        PageResolver::new(mem),
        PageHint::None,
    );
    let r = tree.verify_checksum();
    match r {
        Ok(v) => {
            let want = type_byte == LEAF && leaf_ok(0, fk, fv) && expected == unsafe { CK[0] };
            assert!(v == want, "verified iff leaf, checksum computable, and equal to the stored one");
            kani::cover!(v, "well-formed leaf verified");
            kani::cover!(!v && type_byte == LEAF && !leaf_ok(0, fk, fv), "leaf with uncomputable checksum rejected");
        }
        Err(_) => assert!(false, "verification of in-memory pages cannot fail with an error"),
    }
    core::mem::forget(tree);
}

// @harness props=C12 tier=thorough timeout=3600 mem=40 stubbing=1 flavor=nodebug replay=scenario:page_alter attempt=1
// @desc (attempted: did not close in 1800 s in the quick tier) RawBtree::verify_checksum on a two-level tree (branch root built by the real builder with arbitrary stored child checksums and separator, two child pages with ARBITRARY contents after a concrete type byte): Ok(true) only if the root's checksum equals the header's AND each child is a leaf whose checksum can be computed and equals the checksum the branch stores for it; every child is fetched (visited) when the root verifies
// @functions RawBtree::{verify_checksum,verify_checksum_helper}, branch_checksum, leaf_checksum, BranchAccessor::{child_page,child_checksum,count_children}
// @bound depth 2, one separator (2 bytes, variable width keys), two 64-byte children with arbitrary bytes (not branches), arbitrary stored checksums; profile without debug assertions
// @stubs as c12_verify_single_page_tree
#[kani::proof]
#[kani::unwind(3)]
#[kani::stub(PageResolver::get_page, stub_get_page)]
#[kani::stub(crate::tree_store::page_store::xxh3_checksum, stub_checksum)]
#[kani::stub(alloc::fmt::format, no_format)]
#[kani::stub(crate::panicking, not_panicking)]
fn c12_verify_two_level_tree() {
    if kani::any() {
        two_level_case(LEAF);
    } else {
        two_level_case(0);
    }
}

fn two_level_case(second_type: u8) {
    let fv = if kani::any() { Some(1usize) } else { None };
    let stored: [u128; 2] = kani::any();
    let key: [u8; 2] = kani::any();
    let mut root = [0u8; PG];
    {
        let mut b = RawBranchBuilder::new(&mut root[..], 1, None);
        b.write_first_page(PageNumber::new(0, 1, 0), stored[0]);
        b.write_nth_key(&key, PageNumber::new(0, 2, 0), stored[1], 0);
    }
    root[1] = 0;
    let mut c1: [u8; PG] = kani::any();
    let mut c2: [u8; PG] = kani::any();
    c1[1] = 1;
    c2[1] = 2;
    // concrete type bytes (see c12_verify_single_page_tree): first child a leaf, second a leaf
    // or a page of unknown type
    c1[0] = LEAF;
    c2[0] = second_type;
    unsafe {
        PAGE0 = root;
        PAGE1 = c1;
        PAGE2 = c2;
        CK = [kani::any(), kani::any(), kani::any()];
    }
    let expected: Checksum = kani::any();
    let mem = Arc::new(crate::tree_store::verif_literal_mem());
    let tree = RawBtree::new(
        Some(BtreeHeader::new(PageNumber::new(0, 0, 0), expected, 2)),
        None,
        fv,
        PageResolver::new(mem),
        PageHint::None,
    );
    let r = tree.verify_checksum();
    match r {
        Ok(v) => {
            let root_ok = expected == unsafe { CK[0] };
            let l1 = c1[0] == LEAF && leaf_ok(1, None, fv) && stored[0] == unsafe { CK[1] };
            let l2 = c2[0] == LEAF && leaf_ok(2, None, fv) && stored[1] == unsafe { CK[2] };
            assert!(v == (root_ok && l1 && l2), "verified iff root and both children verify against the stored checksums");
            if v {
                assert!(unsafe { FETCHED[1] } >= 1 && unsafe { FETCHED[2] } >= 1, "every child was visited");
            }
            kani::cover!(v, "whole tree verified");
            kani::cover!(!v && root_ok && l1, "second child rejected");
        }
        Err(_) => assert!(false),
    }
    core::mem::forget(tree);
}

// @harness props=C12 tier=quick timeout=900 mem=12 stubbing=1 flavor=nodebug replay=scenario:page_alter
// @desc RawBtree::verify_checksum on a two-level tree (branch root with two children in the documented layout, two well-formed leaves) for ARBITRARY computed checksums of all three pages and an ARBITRARY root checksum in the header: it returns Ok(true) if and only if the root's computed checksum equals the header's AND EVERY child's computed checksum - the last one included - equals the checksum the branch stores for it; whenever the root and the first child verify, the last child is fetched and checked; pages are fetched root first, then the children in order
// @functions RawBtree::{new,verify_checksum,verify_checksum_helper}, branch_checksum, leaf_checksum, BranchAccessor::{new,child_page,child_checksum,count_children,key,key_end}, LeafAccessor::{new,num_pairs,value_end}
// @bound depth 2, one separator, two one-pair leaves; every page byte concrete (stored child checksums are two fixed constants - a single symbolic byte in a page handed out as Arc<[u8]> defeats CBMC's constant propagation and the recursion no longer closes, DESIGN.md 9.1); the three computed checksums and the header's root checksum arbitrary (so every agreement / disagreement pattern between stored and computed checksums is covered); profile without debug assertions
// @stubs PageResolver::get_page -> the k-th fetch returns page k of the harness table and ASSERTS that page k was asked for; xxh3_checksum -> per-page symbolic constant; alloc::fmt::format -> empty; crate::panicking -> false; Arc::drop_slow -> no-op (pages leaked)
#[kani::proof]
#[kani::unwind(3)]
#[kani::stub(PageResolver::get_page, stub_get_page_seq)]
#[kani::stub(crate::tree_store::page_store::xxh3_checksum, stub_checksum)]
#[kani::stub(alloc::fmt::format, no_format)]
#[kani::stub(alloc::sync::Arc::drop_slow, stub_arc_drop_slow)]
#[kani::stub(crate::panicking, not_panicking)]
fn c12_verify_every_child_checked() {
    // Every page byte is a CONSTANT: one symbolic byte inside an Arc'ed page makes the whole page
    // opaque to CBMC's constant propagation (measured: DESIGN.md 9.1) and the recursion explodes.
    // The stored child checksums are therefore fixed numbers; what stays symbolic is every COMPUTED
    // checksum (CK, returned by the checksum stub) and the root checksum in the header, so the
    // solver still ranges over every way in which stored and computed checksums can (dis)agree.
    let stored: [u128; 2] = [0x1111_2222_3333_4444_5555_6666_7777_8888, 0x9999_aaaa_bbbb_cccc_dddd_eeee_ffff_0001];
    let key: [u8; 2] = [5, 5];
    // Pages written byte by byte in the documented layout (docs/design.md; the builders are shown
    // to emit exactly this layout by c10_branch_build_* / c10_leaf_build_*): straight-line
    // stores keep every structural byte a constant for the solver
    let mut root = [0u8; PG];
    root[0] = BRANCH;
    root[2] = 1; // one key, two children
    put16(&mut root, 8, stored[0]);
    put16(&mut root, 24, stored[1]);
    put8(&mut root, 40, PageNumber::new(0, 1, 0).to_le_bytes());
    put8(&mut root, 48, PageNumber::new(0, 2, 0).to_le_bytes());
    root[56] = 62; // key_end[0]
    root[60] = key[0];
    root[61] = key[1];
    // leaf: type | 0 | num_pairs u16 | key_end u32 | value_end u32 | key | value
    let mut c1 = [0u8; PG];
    c1[0] = LEAF;
    c1[2] = 1;
    c1[4] = 14;
    c1[8] = 15;
    c1[12] = 1;
    c1[13] = 1;
    c1[14] = 7;
    let mut c2 = [0u8; PG];
    c2[0] = LEAF;
    c2[2] = 1;
    c2[4] = 14;
    c2[8] = 16;
    c2[12] = 9;
    c2[13] = 9;
    c2[14] = 8;
    c2[15] = 8;
    unsafe {
        PAGE0 = root;
        PAGE1 = c1;
        PAGE2 = c2;
        CK = [kani::any(), kani::any(), kani::any()];
    }
    let expected: Checksum = kani::any();
    let mem = Arc::new(crate::tree_store::verif_literal_mem());
    let tree = RawBtree::new(
        Some(BtreeHeader::new(PageNumber::new(0, 0, 0), expected, 2)),
        None,
        None,
        PageResolver::new(mem),
        PageHint::None,
    );
    let r = tree.verify_checksum();
    match r {
        Ok(v) => {
            let root_ok = expected == unsafe { CK[0] };
            let l1 = stored[0] == unsafe { CK[1] };
            let l2 = stored[1] == unsafe { CK[2] };
            assert!(v == (root_ok && l1 && l2), "verified iff the root and EVERY child verify against the stored checksums");
            if root_ok && l1 {
                assert!(unsafe { FETCHED[2] } >= 1, "the last child is fetched and checked");
            }
            kani::cover!(v, "whole tree verified");
            kani::cover!(!v && root_ok && l1, "damage under the last child rejected");
            kani::cover!(!v && root_ok && !l1, "damage under the first child rejected");
        }
        Err(_) => assert!(false),
    }
    core::mem::forget(tree);
}
