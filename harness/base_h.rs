// Mounted under src/tree_store/page_store/base.rs as `mod verif_kani` (cfg(kani)).
// Struct-literal PageImpl for the tree-verification harnesses; PageNumber harnesses (C04/C20).
#![allow(dead_code, unused_imports, unused_comparisons, clippy::all, clippy::pedantic)]

use super::*;
use alloc::sync::Arc;

/// PageImpl over a harness buffer (only built in the `nodebug` overlay flavor, where PageImpl
/// carries no debug bookkeeping)
#[cfg(not(debug_assertions))]
pub(crate) fn page_impl(mem: Arc<[u8]>, page_number: PageNumber) -> PageImpl {
    PageImpl { mem, page_number }
}

// @harness props=C04,C20 tier=quick timeout=900 mem=8
// @desc PageNumber: from_le_bytes(to_le_bytes(p)) == p for every valid page number (index below 2^(20-order)); the order of two pages of one region equals the order of their start addresses; address_range of a page lies inside its region's data section and two pages with disjoint index ranges have disjoint address ranges
// @functions PageNumber::{to_le_bytes,from_le_bytes,cmp,address_range}
// @bound region < 2^20, order <= 20, index < 2^(20-order); page size 512 / region of 2^20 pages for address_range
#[kani::proof]
#[kani::unwind(8)]
fn c04_page_number_codec_order() {
    let order: u8 = kani::any();
    kani::assume(order <= 20);
    let index: u32 = kani::any();
    kani::assume(index <= (MAX_PAGE_INDEX >> order));
    let region: u32 = kani::any();
    kani::assume(region <= 0x000F_FFFF);
    let p = PageNumber::new(region, index, order);
    let q = PageNumber::from_le_bytes(p.to_le_bytes());
    assert!(q.region == region && q.page_index == index && q.page_order == order, "round trip");
    // order within a region = order of start addresses (same order, different index)
    let index2: u32 = kani::any();
    kani::assume(index2 <= (MAX_PAGE_INDEX >> order) && index2 != index);
    let p2 = PageNumber::new(region, index2, order);
    assert!((p.cmp(&p2) == core::cmp::Ordering::Less) == (index < index2));
    // address ranges
    let page_size: u32 = 512;
    let region_size: u64 = (1u64 << 20) * 512;
    let r1 = p.address_range(512, region_size, 0, page_size);
    let r2 = p2.address_range(512, region_size, 0, page_size);
    assert!(r1.start < r1.end && r1.end - r1.start == (512u64 << order));
    assert!(r1.end <= r2.start || r2.end <= r1.start, "distinct blocks of one order never overlap");
    let base = 512 + u64::from(region) * region_size;
    assert!(r1.start >= base && r1.end <= base + region_size, "inside its region");
    kani::cover!(order == 19, "large order");
}
