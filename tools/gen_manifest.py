#!/usr/bin/env python3
"""Writes /verif/MANIFEST.json from the table below (kept in one place so that the claimed
list, the not_applicable list and the commands cannot drift apart)."""
import json
import os

VERIF = os.path.dirname(os.path.dirname(os.path.abspath(__file__)))

TECH = "bounded model checking of the real code (Kani 0.68 / CBMC 6.11 / CaDiCaL) over an overlay of /repo's working tree"

CLAIMED = {
    # id: (design_ref, level text, level note)
}

NOT_APPLICABLE = {
    # id: reason
}

exec(open(os.path.join(VERIF, "tools", "manifest_table.py")).read())

checks = []
for pid in sorted(CLAIMED):
    ref, text, note = CLAIMED[pid]
    checks.append({
        "property_id": pid,
        "quick_cmd": "./check %s --tier quick" % pid,
        "thorough_cmd": "./check %s --tier thorough" % pid,
        "evidence_file": "evidence/%s.json" % pid,
        "replay_cmd_template": "./check %s --replay {path}" % pid,
        "engine": "kani-overlay",
        "level_claimed": {"category": "model_checking", "text": text, "design_ref": ref},
        "level_note": note,
        "technique": TECH,
    })

m = {
    "version": 1,
    "setup_cmd": "./setup.sh",
    "hooks": {
        "guard": "kani",
        "enable": "no hooks in /repo: every check copies /repo's working tree to a scratch overlay and appends `#[cfg(kani)] mod verif_kani;` lines there (DESIGN.md 3.1); cfg(kani) is set by cargo-kani only",
        "baseline_off_cmd": "cd /repo && cargo nextest run --workspace --no-fail-fast --offline || cargo test --workspace --no-fail-fast --offline",
        "source_commits": FIX_COMMITS if 'FIX_COMMITS' in dir() else [],
        "add_only": True,
    },
    "engines": [
        {"name": "kani-overlay", "path": "check", "serves_properties": sorted(CLAIMED),
         "kind_free_text": "Python driver (lib/driver.py): builds the overlay from /repo's working tree, runs one `cargo kani --harness` per harness in parallel under memory/time caps, parses per-check and cover results, replays counterexamples natively (Kani concrete playback), writes evidence"},
    ],
    "checks": checks,
    "not_applicable": [{"property_id": k, "reason": v} for k, v in sorted(NOT_APPLICABLE.items())],
    "notes": "Solver-based checking only (see DESIGN.md). Exit 2 = inconclusive (never success, never a violation). No hooks in /repo (the overlay appends cfg(kani) harness modules to a scratch copy). One unguarded repair commit in /repo: ddc6771 'fix: reject a database file shorter than its header instead of reading past its end' (C20, DESIGN.md 6b, known_findings.json kind=fixed).",
}
with open(os.path.join(VERIF, "MANIFEST.json"), "w") as fh:
    json.dump(m, fh, indent=1)
print("claimed:", sorted(CLAIMED), "n/a:", sorted(NOT_APPLICABLE))
