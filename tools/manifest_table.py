# Table read by gen_manifest.py.  One entry per property: claimed (with the level text) or
# not applicable (with the reason).  Keep in step with DESIGN.md sections 4, 5 and 9.

NOTE_COMMON = ("Trusted: rustc/Kani MIR-to-goto translation, CBMC + CaDiCaL, the overlay step (verbatim copy of /repo/src plus "
               "appended mod lines; #[cfg(test)] items compiled out). Kani models the dev profile (harnesses marked nodebug: "
               "debug-assertions = false). Bounds, stubs and assumptions are listed per harness in the evidence file; nothing is "
               "claimed outside them. Unwinding assertions on; timeout / out-of-memory / unsatisfied cover = inconclusive (exit 2). "
               "A solver counterexample is reported only after it reproduces natively (concrete playback, or the public-API "
               "replay tool for stubbed harnesses).")

KERNEL = ("Kernel-level claim: the solver decides, for all values inside the stated bounds, the obligations of this property's "
          "mechanisms that live in solver-reachable code; the end-to-end statement over whole histories is NOT established "
          "(DESIGN.md 1, 9.3). ")

ALL = {
    "C01": ("DESIGN.md 4 C01, 9.3",
            KERNEL + "Decided: the real commit() issues exactly W(H1) [flush if 2PC] W(H2) flush with byte-exact header images and "
            "publishes nothing before the final flush; from ANY durable header state satisfying the stated invariant, every crash cut "
            "and every torn subset (16-byte words; byte-granular in thorough) of god byte + overwritten slot is recovered by the real "
            "header code to the old or the new commit, whole, and to the new one once commit returned; the real do_repair ends on a "
            "verifying slot, falls back exactly when the primary does not verify without the 2PC flag, and clears the recovery flag "
            "only then; non-durable commits touch no storage; clean shutdown clears the flag only when safe; ids never repeat.",
            NOTE_COMMON + " Assumes A-TORN / injective checksum (xxh3 as uninterpreted function), A-COW, A-MERKLE (oracle for tree verification)."),
    "C03": ("DESIGN.md 4 C03, 9.3",
            KERNEL + "Decided: one write slot (a second writer blocks), ids strictly increasing, an observer at every lock release of "
            "commit() / after non_durable_commit() reads the old or the new commit point, never a mixture, and nothing before the final "
            "flush returned; deferred close is owned by exactly one side in both orders.",
            NOTE_COMMON + " Schedules are sequentialised at lock releases (mutex sections atomic); 2 threads."),
    "C04": ("DESIGN.md 4 C04, 9.3",
            KERNEL + "Decided: every single-page primitive the tree algorithms are built from - leaf build/read, binary search, in-place "
            "insert / remove / replace / remove_indices, branch routing, page-number order - equals a list model and an independent "
            "decoder for ALL byte contents over a table of concrete shapes (64-byte pages, <= 3 pairs, lengths 0..=3, all four "
            "fixed/variable width combinations incl. zero-width values); the size policies (split required, fits one page, merge threshold, "
            "branch size) equal the documented layout arithmetic for ALL counts, byte totals, widths and page sizes; in-place insert / "
            "replace admission agrees with the mutators to the byte at the exact-fit boundary (large pages: append only).",
            NOTE_COMMON + " Lengths, counts and positions are case-split (they become memcpy sizes); contents symbolic."),
    "C08": ("DESIGN.md 4 C08, 9.3",
            KERNEL + "Decided: CheckedBackend's failure latch for any 4 operations with a failure at any call; the real commit() with a "
            "failure injected at any storage event returns Err, issues nothing afterwards and publishes nothing; with a failure latched it "
            "refuses before any storage call; shutdown never clears the recovery flag after a failure; close() still runs once.",
            NOTE_COMMON),
    "C10": ("DESIGN.md 4 C10, 9.3",
            KERNEL + "Decided against an independent decoder written from docs/design.md: every leaf and branch page the raw builders and "
            "the in-place mutators emit decodes to exactly its input (type byte, counts, monotone in-range offsets, keys then values, "
            "total length); leaf/branch checksums hash exactly [0,total_length); write_child_page rewrites exactly one child; commit "
            "slot and database header field offsets and round trips.",
            NOTE_COMMON + " Checksum function itself (xxh3 arithmetic) is outside: stub records the hashed range / uninterpreted function."),
    "C11": ("DESIGN.md 4 C11, 9.3",
            KERNEL + "Thin: record_alloc marks exactly a free block or refuses; new() yields the all-free state the rebuild starts from; "
            "mark_page_allocated accepts a page number read from the file only if it lies inside its region, fits, and is entirely "
            "free, and rejects everything else as corruption without panicking.",
            NOTE_COMMON),
    "C12": ("DESIGN.md 4 C12, 9.3",
            KERNEL + "Decided: slot selection equals the documented table; any altered byte of a commit slot is detected and a corrupt "
            "slot is never re-serialised as valid; header parsing is total on arbitrary 320 bytes and file length and an accepted layout "
            "spans exactly the file; leaf/branch checksum functions are total on arbitrary pages; top-down verification "
            "(RawBtree::verify_checksum) of a single-page tree with arbitrary page contents returns true only if the page's checksum "
            "can be computed and equals the stored one; on a two-level tree (concrete page bytes, arbitrary computed checksums) it returns "
            "true iff the root and EVERY child - the last included - match the checksums stored for them.",
            NOTE_COMMON + " Injective-checksum assumption as C01."),
    "C14": ("DESIGN.md 4 C14, 9.3",
            "Decided directly for the buddy allocator and its bitmaps: one inductive step of alloc, free, record_alloc, resize, new and the "
            "queries from an ARBITRARY state satisfying the representation invariant R (every bitmap word symbolic), so histories of "
            "any length are covered by induction within the region-size bound: blocks handed out are in range and were entirely free, "
            "the free set changes by exactly the block, refusal only when no aligned free run exists, maximal merging (R re-established), "
            "alloc;free is the identity; resize keeps every surviving page's state, frees exactly the added pages and re-establishes R. "
            "Region capacity 16 (lengths 6, 11, 13, 16 quick; all 1..16 and capacity 128 thorough). Region tracker: one step of "
            "mark_free / mark_full / find_free from any tracker state changes / reads exactly the documented bits, which together with "
            "the allocator steps keeps the tracker optimistic (never full for a region with a suitable block) by composition. The glue inside "
            "allocate_helper_retry / free_helper, Allocators::resize_to, alloc_lowest and the "
            "allocator-level codec did not close and are NOT claimed (DESIGN.md 9.1).",
            NOTE_COMMON + " Invariant R is assumed of the pre-state and asserted of the post-state; `new` establishes it."),
    "C15": ("DESIGN.md 4 C15, 9.3",
            "Decided directly per built-in key type: compare(enc a, enc b) equals the value order (independent oracle: the type's own "
            "Ord / a hand-written lexicographic and UTF-8 oracle), decode(encode(v)) == v, and for a < b the separator s is a valid "
            "encoding with a <= s < b and len(s) <= len(a); min_encoded_key is least. Integers, bool, char, unit, byte arrays: all "
            "values. Byte strings / strings / Option / tuples / arrays of variable-width elements: all contents within the stated "
            "length bounds (<= 5 bytes quick, <= 9 thorough; composite element lengths case-split).",
            NOTE_COMMON + " String harnesses replace core::str::from_utf8 by an independent validator proved equal to it on the same bound (c15_utf8_stub_equiv)."),
    "C17": ("DESIGN.md 4 C17, 9.3",
            KERNEL + "Thin: only the type-and-kind gate. check_match against an arbitrary stored definition (kind, alignments, widths, "
            "classification bytes, names) returns Ok only if everything agrees and the documented error variant otherwise; a "
            "user-defined composite never aliases a built-in one; the legacy spelling is accepted.",
            NOTE_COMMON + " The catalog as a map (create/rename/delete/list) is outside."),
    "C19": ("DESIGN.md 4 C19, 6, 9.3",
            KERNEL + "Differential against redb 3.0.0's own source (cargo cache): key encodings byte-identical, both comparators agree, "
            "each version decodes the other's bytes, this version's shortened separators are ordered a <= s < b by 3.0.0's comparator "
            "without panicking, leaf type names identical and mutually accepted, 3.0.0's composite names accepted by this version. "
            "KNOWN FINDING (recorded, not repaired): built-in composite type names written by this version make 3.0.0 panic.",
            NOTE_COMMON + " Slot / page / record codecs against 3.0.0 and whole-file behaviour are outside."),
    "C20": ("DESIGN.md 4 C20, 9.3",
            KERNEL + "Decided: CheckedBackend closes the backend exactly once (explicit close or Drop) and nothing reaches it afterwards; "
            "Database::drop against a live write transaction, both orders, with and without a latched failure: exactly one close, not "
            "before the writer ends; an accepted header layout spans exactly the file (all page addresses inside it); page address "
            "ranges of distinct blocks are disjoint and inside their region.",
            NOTE_COMMON + " I/O issued by tree code and the cache, and TransactionalMemory::new's open path, are outside."),
}

# properties whose quick check currently exits 0 on the unchanged tree
ENABLED = ["C01", "C03", "C04", "C08", "C10", "C11", "C12", "C14", "C15", "C17", "C19", "C20"]

CLAIMED = {k: v for k, v in ALL.items() if k in ENABLED}

NOT_APPLICABLE = {
    "C02": "snapshot isolation lives in TransactionTracker's BTreeMaps, WriteTransaction's free-horizon code over system B-trees and the page cache's hash maps: none can be encoded within reach of Kani/CBMC (DESIGN.md 5, probes P18/P19)",
    "C05": "rollback is PageAllocator::rollback_all + TableTreeMut + tracker maps inside WriteTransaction, which cannot be constructed symbolically (DESIGN.md 5); the alloc;free identity lemma is reported under C14",
    "C06": "page ownership is an accounting identity over system B-trees and std hash sets/maps (UnpersistedState), out of reach (DESIGN.md 5)",
    "C07": "savepoint capture/restore are WriteTransaction methods over system tables and tracker BTreeMaps, out of reach (DESIGN.md 5)",
    "C09": "multimap inline<->subtree transitions are tree-level code in MultimapTable, out of reach; page-local pieces are reported under C04/C10 (DESIGN.md 5)",
    "C13": "compaction is tree walks inside write transactions plus tracker-map guards, out of reach (DESIGN.md 5)",
    "C16": "Kani does not execute threads and both racing sides are methods of a WriteTransaction that cannot be built (DESIGN.md 5)",
    "C18": "btree_cursor.rs is tree navigation with no page-local kernel of the cursor contract (DESIGN.md 5)",
}

for k in ALL:
    if k not in CLAIMED:
        NOT_APPLICABLE[k] = "not claimed yet: harnesses exist (DESIGN.md 9.3) but the check is not yet registered as passing on the unchanged tree"

FIX_COMMITS = []
