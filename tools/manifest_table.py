# Table read by gen_manifest.py.  One entry per property: claimed (with the level text) or
# not applicable (with the reason).  Keep in step with DESIGN.md sections 4 and 5.

NOTE_COMMON = ("Trusted: rustc/Kani MIR-to-goto translation, CBMC + CaDiCaL, the overlay step (verbatim copy of /repo/src plus "
               "appended mod lines). Kani models the dev profile. Bounds, stubs and assumptions are listed per harness in the "
               "evidence file; nothing is claimed outside them. Unwinding assertions on; timeout / out-of-memory / vacuous cover "
               "= inconclusive (exit 2).")

CLAIMED = {
    "C14": ("DESIGN.md 4 C14",
            "Decided directly for the buddy allocator and its bitmaps: one inductive step of alloc, free, record_alloc, new and the "
            "queries from an ARBITRARY state satisfying the representation invariant R (every bitmap word symbolic), so histories of "
            "any length are covered by induction within the region-size bound: blocks handed out are in range and were entirely free, "
            "the free set changes by exactly the block, refusal only when no aligned free run exists, maximal merging (R re-established), "
            "alloc;free is the identity. Region capacity 16 (all lengths 1..16) in the tiers, 128 in thorough. alloc_lowest, the "
            "allocator-level codec and the region tracker's allocation path did not close and are NOT claimed (DESIGN.md).",
            NOTE_COMMON + " Invariant R is assumed of the pre-state and asserted of the post-state; `new` establishes it."),
    "C15": ("DESIGN.md 4 C15",
            "Decided directly per built-in key type: compare(enc a, enc b) equals the value order (independent oracle: the type's own "
            "Ord / a hand-written lexicographic and UTF-8 oracle), decode(encode(v)) == v, and for a < b the separator s is a valid "
            "encoding with a <= s < b and len(s) <= len(a); min_encoded_key is least. Integers, bool, char, unit, byte arrays: all "
            "values. Byte strings / strings / Option / tuples / arrays of variable-width elements: all contents within the stated "
            "length bounds (<= 5 bytes quick, <= 9 thorough; composite element lengths case-split).",
            NOTE_COMMON + " String harnesses replace core::str::from_utf8 by an independent validator proved equal to it on the same bound (c15_utf8_stub_equiv)."),
}

NOT_APPLICABLE = {
    "C02": "snapshot isolation lives in TransactionTracker's BTreeMaps, WriteTransaction's free-horizon code over system B-trees and the page cache's hash maps: none can be encoded within reach of Kani/CBMC (DESIGN.md 5, probes P18/P19)",
    "C05": "rollback is PageAllocator::rollback_all + TableTreeMut + tracker maps inside WriteTransaction, which cannot be constructed symbolically (DESIGN.md 5); the alloc;free identity lemma is reported under C14",
    "C06": "page ownership is an accounting identity over system B-trees and std hash sets/maps (UnpersistedState), out of reach (DESIGN.md 5)",
    "C07": "savepoint capture/restore are WriteTransaction methods over system tables and tracker BTreeMaps, out of reach (DESIGN.md 5)",
    "C09": "multimap inline<->subtree transitions are tree-level code in MultimapTable, out of reach; page-local pieces are reported under C04/C10 (DESIGN.md 5)",
    "C13": "compaction is tree walks inside write transactions plus tracker-map guards, out of reach (DESIGN.md 5)",
    "C16": "Kani does not execute threads and both racing sides are methods of a WriteTransaction that cannot be built (DESIGN.md 5)",
    "C18": "btree_cursor.rs is tree navigation with no page-local kernel of the cursor contract (DESIGN.md 5)",
}

# properties designed as claimable but whose checks are not yet registered: listed as not
# applicable *for now* with the honest reason, and moved to CLAIMED as their checks land
PENDING = {
    "C01": "harnesses exist (commit event order, crash/recovery of the header) but are not yet registered as a passing check",
    "C03": "harnesses exist (publish order, non-durable commit) but are not yet registered as a passing check",
    "C04": "page-level leaf/branch harnesses not yet written",
    "C08": "harnesses exist (CheckedBackend latch, commit under fault) but are not yet registered as a passing check",
    "C10": "codec harnesses partly written, not yet registered",
    "C11": "allocator rebuild harnesses partly written (record_alloc under C14), not yet registered",
    "C12": "harnesses exist (slot table, checksum coverage, header totality) but are not yet registered as a passing check",
    "C17": "check_match harness not yet written",
    "C19": "differential crate against redb 3.0.0 not yet written",
    "C20": "harnesses exist (close exactly once) but are not yet registered as a passing check",
}
for k, v in PENDING.items():
    if k not in CLAIMED:
        NOT_APPLICABLE[k] = "not claimed yet: " + v

FIX_COMMITS = []
