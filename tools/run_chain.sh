#!/bin/bash
# run_chain.sh <name> <mem GB> <jobs> <props...>: checks in turn with a share of the machine
cd /verif
name=$1; mem=$2; jobs=$3; shift 3
mkdir -p /tmp/runall
for p in "$@"; do
  s=$(date +%s)
  VERIF_MEM_GB=$mem VERIF_JOBS=$jobs python3 check $p --tier quick > /tmp/runall/$p.log 2>&1
  rc=$?
  echo "$p exit $rc $(( $(date +%s) - s ))s $(tail -1 /tmp/runall/$p.log)" >> /tmp/runall_$name.txt
done
