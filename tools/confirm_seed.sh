#!/bin/bash
# confirm_seed.sh <PROP> <worktree> <name>: independently confirm a sub-agent's mutant and store it
# under /verif/seeded/<name>/ (patch.diff, demo.diff, meta.json, confirm.log).
prop=$1; wt=$2; name=$3
out=/verif/seeded/$name; mkdir -p $out
log=$out/confirm.log; : > $log
cd $wt || exit 2
export CARGO_NET_OFFLINE=true
git checkout -q -- . ; git clean -fdq -e MUTANT -e PROPERTY.json -e Cargo.lock -e target
demo_cmd=$(python3 -c "import json;print(json.load(open('MUTANT/meta.json'))['demo_cmd'])" | sed "s|cd $wt && ||")
echo "demo_cmd: $demo_cmd" >> $log
git apply MUTANT/demo.diff || { echo "demo.diff does not apply" >> $log; exit 2; }
( eval "$demo_cmd" ) > $out/demo_clean.txt 2>&1; rc_clean=$?
echo "clean+demo rc=$rc_clean" >> $log
git apply MUTANT/patch.diff || { echo "patch.diff does not apply" >> $log; exit 2; }
( eval "$demo_cmd" ) > $out/demo_mut.txt 2>&1; rc_mut=$?
echo "patch+demo rc=$rc_mut" >> $log
git checkout -q -- . ; git clean -fdq -e MUTANT -e PROPERTY.json -e Cargo.lock -e target
git apply MUTANT/patch.diff
cargo test --offline -j 3 --workspace --no-fail-fast -- --test-threads 3 > $out/suite_mut.txt 2>&1; rc_suite=$?
echo "patch suite rc=$rc_suite; $(grep -c '^test result: ok' $out/suite_mut.txt) ok binaries; failed: $(grep -E '^test result: FAILED' $out/suite_mut.txt | wc -l)" >> $log
git checkout -q -- . ; git clean -fdq -e MUTANT -e PROPERTY.json -e Cargo.lock -e target
cp MUTANT/patch.diff MUTANT/demo.diff MUTANT/meta.json $out/
tail -5 $out/demo_clean.txt > $out/demo_clean.tail; tail -8 $out/demo_mut.txt > $out/demo_mut.tail
grep -E "^test result" $out/suite_mut.txt > $out/suite_mut.summary; rm -f $out/demo_clean.txt $out/demo_mut.txt $out/suite_mut.txt
if [ $rc_clean -eq 0 ] && [ $rc_mut -ne 0 ] && [ $rc_suite -eq 0 ]; then echo CONFIRMED >> $log; else echo NOT-CONFIRMED >> $log; fi
cat $log
