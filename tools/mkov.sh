#!/bin/bash
# scratch overlay for interactive probing: mkov.sh <dir>
set -e
ov=$1
rm -rf "$ov/src" "$ov/h"; mkdir -p "$ov/h"
cp -r /repo/src /repo/build.rs /repo/Cargo.lock "$ov/"
python3 /verif/check --make-overlay "$ov"
