#!/bin/bash
# run_all.sh [tier]: every registered check in turn (evidence rewritten), one log per property
cd /verif
tier=${1:-quick}
mkdir -p /tmp/runall
for p in ${PROPS:-C01 C03 C04 C08 C10 C11 C12 C14 C15 C17 C19 C20}; do
  s=$(date +%s)
  python3 check $p --tier $tier > /tmp/runall/$p.log 2>&1
  rc=$?
  echo "$p exit $rc $(( $(date +%s) - s ))s $(tail -1 /tmp/runall/$p.log)"
done
