#!/bin/bash
# usage: kprobe.sh <overlay dir> <harness> [timeout s] [mem GB] [extra cargo-kani args...]
ov=$1; h=$2; t=${3:-300}; gb=${4:-16}; shift 4; hs=${h##*::}
cd "$ov" || exit 2
ulimit -v $((gb*1024*1024))
start=$(date +%s)
CARGO_NET_OFFLINE=true timeout -k 5 "$t" cargo kani --harness "$h" --target-dir "$ov/t_$hs" "$@" > "$ov/log_$hs.txt" 2>&1
rc=$?
end=$(date +%s)
echo "== $h rc=$rc wall=$((end-start))s"
grep -E "VERIFICATION|Verification Time|^ \*\* |SATISFIED|UNSATISFIABLE|UNREACHABLE|Status: (FAILURE|ERROR|UNDETERMINED)|unwinding assertion|^error|Failed Checks|out of memory|bad_alloc" "$ov/log_$hs.txt" | sort | uniq -c | head -40
