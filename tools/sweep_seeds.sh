#!/bin/bash
# sweep_seeds.sh: run the registered check of each seeded change's property against the change
# (applied in a scratch worktree that the check reads through VERIF_REPO; /repo is not touched)
# and record the outcome in seeded/<name>/meta.json.  usage: sweep_seeds.sh [name-regex]
cd /verif
WT=/tmp/wt-sweep
[ -d $WT ] || git -C /repo worktree add -q $WT HEAD
while read -r name prop only tier; do
  [ -n "$1" ] && ! echo "$name" | grep -Eq "$1" && continue
  d=seeded/$name
  [ -f $d/patch.diff ] || continue
  git -C $WT checkout -q -- . && git -C $WT clean -fdq
  git -C $WT apply $PWD/$d/patch.diff || { echo "$name: patch does not apply"; continue; }
  out=/tmp/sweep_$name.txt
  VERIF_REPO=$WT python3 check $prop --tier ${tier:-quick} --only "$only" --no-evidence > $out 2>&1
  rc=$?
  line=$(grep -E "^VIOLATION|^INCONCLUSIVE" $out | head -3 | tr '\n' ';')
  python3 - "$d/meta.json" "$prop" "$only" "$rc" "$line" <<'PY'
import json,sys
p,prop,only,rc,line=sys.argv[1:6]
m=json.load(open(p))
m["check_run"]={"cmd":"VERIF_REPO=<worktree with patch.diff applied> ./check %s --only '%s'"%(prop,only),"exit":int(rc),"output":line,
                "detected": int(rc)==1}
json.dump(m,open(p,"w"),indent=1)
PY
  echo "$name: exit $rc $line"
  git -C $WT checkout -q -- .
done <<'LIST'
C15-str-roundup-after-check C15 c15_str_le5
C01-2pc-sync-file-instead-of-flush C01 c01_commit_events_2pc_p0
C12-leaf-checksum-err-accepted C12 c12_verify_single_page_tree
C08-set-len-does-not-latch C08 c08_checked_backend_latch
C04-remove-indices-value-delta C04 c04_leaf_remove_indices_vv_0
C20-drop-closes-after-failure C20 c20_database_drop
C03-read-from-secondary-cleared-early C03 c01_commit_events_1pc_p0
C17-tuple-user-element-not-first C17 c17_user_tuple
C14-mark-full-from-highest-free C14 c14_tracker_alloc_path
C10-root-collapse-deferred-checksum C10 c10_leaf_build_vv
C19-str-separator-cut-inside-char C19 c19_str_separator_routes_in_v3
C11-load-allocator-state-region-range C11 c11_mark_page_allocated_n13
C01-select-slot-2pc-only-when-corrupt C01 c12_select_slot_table
C15-varint-65536-wraps C15 c15_varint_roundtrip
C20-close-flags-after-backend-close C20 c20_close_exactly_once
C12-verify-skips-last-child C12 c12_verify_every_child_checked
C14-resize-to-truncate-before-mark-full C14 c14_resize_to_drop_regions_tracker thorough
C04-large-value-sibling-order C04 c04_leaf_insert_vv_at0
LIST
