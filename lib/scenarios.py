"""Re-enactment of counterexamples of *stubbed* harnesses through redb's public API.
Filled in per harness family; a family without a scenario reports `reproduced: False`."""


def reenact(prop, res, ov, rec):
    return {"reproduced": False, "mode": "none", "why": "no native re-enactment scenario for harness %s" % res.h.name}
