"""Re-enactment of counterexamples of *stubbed* harnesses through redb's public API.

The native tool /verif/replay_tool is built against the scratch overlay (a verbatim copy of
/repo's working tree; the cfg(kani) harness modules compile out) and the scenario(s) that
correspond to the failed harness are run.  A scenario that finds a violation of the property's
statement against the real code is what gets reported; otherwise the solver's counterexample
is inconclusive (the harness model or a stub may be wrong).
"""
import json
import os
import shutil
import subprocess
import threading

VERIF = os.path.dirname(os.path.dirname(os.path.abspath(__file__)))
TOOL_SRC = os.path.join(VERIF, "replay_tool")

# annotation `replay=scenario:<name>` -> scenarios of replay_tool to run, in order
MAP = {
    "commit_events": ["events", "visibility", "crash", "fault"],
    "crash": ["crash"],
    "non_durable": ["events", "visibility", "crash"],
    "shutdown": ["crash", "close", "fault"],
    "fault": ["fault", "crash"],
    "close": ["close"],
    "slot_alter": ["alter", "crash"],
    "header_fuzz": ["alter", "crash", "close"],
    "header_layout": ["alter", "crash"],
    "page_alter": ["alter", "alter_tree"],
    "short_open": ["short_open", "close"],
}

_lock = threading.Lock()


def _env():
    env = dict(os.environ)
    env["CARGO_NET_OFFLINE"] = "true"
    env.pop("RUSTFLAGS", None)
    return env


def build_tool(ov):
    """build replay_tool against the overlay in ov; returns path of the binary or raises"""
    with _lock:
        rt = os.path.join(ov, "rt")
        binp = os.path.join(rt, "target", "debug", "replay_tool")
        if os.path.exists(binp):
            return binp
        os.makedirs(rt, exist_ok=True)
        redb_path = os.path.join(ov, "cur") if os.path.isdir(os.path.join(ov, "cur", "src")) else ov
        shutil.copytree(os.path.join(TOOL_SRC, "src"), os.path.join(rt, "src"), dirs_exist_ok=True)
        toml = open(os.path.join(TOOL_SRC, "Cargo.toml")).read().replace("REDB_PATH", redb_path)
        open(os.path.join(rt, "Cargo.toml"), "w").write(toml)
        # the overlay's own Cargo.toml declares an empty [workspace]; harmless for a path dependency
        p = subprocess.run(["cargo", "build", "--offline"], cwd=rt, env=_env(), stdout=subprocess.PIPE,
                           stderr=subprocess.STDOUT, text=True, errors="replace")
        if p.returncode != 0 or not os.path.exists(binp):
            raise RuntimeError("replay_tool does not build against the working tree: " + p.stdout[-1500:])
        return binp


def run_scenarios(ov, names):
    binp = build_tool(ov)
    results = []
    for n in names:
        try:
            p = subprocess.run([binp, n], cwd=os.path.join(ov, "rt"), stdout=subprocess.PIPE, stderr=subprocess.STDOUT,
                               text=True, errors="replace", timeout=1800)
        except subprocess.TimeoutExpired:
            results.append({"scenario": n, "reproduced": False, "error": "timeout"})
            continue
        line = [l for l in p.stdout.splitlines() if l.startswith("{")]
        try:
            r = json.loads(line[-1]) if line else {"scenario": n, "reproduced": False, "error": p.stdout[-500:]}
        except ValueError:
            r = {"scenario": n, "reproduced": False, "error": p.stdout[-500:]}
        r["exit"] = p.returncode
        results.append(r)
        if r.get("reproduced"):
            break
    return results


def reenact(prop, res, ov, rec):
    mode = res.h.replay
    if not mode.startswith("scenario:"):
        return {"reproduced": False, "mode": "none",
                "why": "harness %s has no native replay (replay=%s)" % (res.h.name, mode)}
    names = MAP.get(mode.split(":", 1)[1], [])
    try:
        results = run_scenarios(ov, names)
    except Exception as e:  # noqa: BLE001
        return {"reproduced": False, "mode": "public-API re-enactment", "why": str(e)}
    hit = [r for r in results if r.get("reproduced")]
    out = {
        "mode": "public-API re-enactment by /verif/replay_tool (native, real code)",
        "scenarios_run": names,
        "results": results,
        "reproduced": bool(hit),
    }
    if hit:
        out["violation"] = hit[0]
        rec["scenario"] = hit[0]["scenario"]
    else:
        out["why"] = "no scenario of %s reproduced a violation through the public API" % names
    return out
