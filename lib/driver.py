"""Driver: overlay -> cargo kani per harness (parallel) -> parse -> replay -> evidence."""
import concurrent.futures
import json
import os
import re
import resource
import shutil
import signal
import subprocess
import sys
import tempfile
import threading
import time

import overlay
import registry
import replay as replay_mod

VERIF = overlay.VERIF
EVIDENCE_DIR = os.path.join(VERIF, "evidence")
REPLAY_DIR = os.path.join(VERIF, "replays")
KNOWN = os.path.join(VERIF, "known_findings.json")
TOTAL_MEM_GB = int(os.environ.get("VERIF_MEM_GB", "52"))
SCRATCH_ROOT = os.environ.get("VERIF_SCRATCH", "/tmp")


def log(msg):
    sys.stdout.write(msg + "\n")
    sys.stdout.flush()


def module_path(h):
    mount, modname = overlay.MOUNTS[h.file]
    if mount.startswith("@"):
        return "%s::%s" % (modname, h.name)
    p = mount[len("src/"):-len(".rs")]
    if p.endswith("/mod"):
        p = p[:-4]
    return "%s::%s::%s" % (p.replace("/", "::"), modname, h.name)


class Result:
    def __init__(self, h):
        self.h = h
        self.status = None      # pass | fail | inconclusive
        self.reason = ""
        self.checks_total = 0
        self.checks_failed = 0
        self.failed_checks = []  # (description, location)
        self.covers = {}         # description -> SATISFIED/UNSATISFIABLE/UNREACHABLE
        self.solver_s = 0.0
        self.wall_s = 0.0
        self.log_path = None
        self.vccs = None
        self.program_steps = None
        self.replay = None       # dict when a counterexample was replayed
        self.peak_rss_mb = 0     # sampled every 5 s over the harness' process group


CHECK_RE = re.compile(r"^Check (\d+): (.+?)\s*$")


def parse_kani_output(text, res):
    """Fill `res` from Kani's regular output."""
    lines = text.splitlines()
    cur = None
    cur_status = None
    cur_desc = None
    cur_loc = None
    checks = []
    for ln in lines:
        m = CHECK_RE.match(ln.strip())
        if m:
            if cur is not None:
                checks.append((cur, cur_status, cur_desc, cur_loc))
            cur = m.group(2)
            cur_status = cur_desc = cur_loc = None
            continue
        s = ln.strip()
        if cur is not None:
            if s.startswith("- Status:"):
                cur_status = s.split(":", 1)[1].strip()
            elif s.startswith("- Description:"):
                cur_desc = s.split(":", 1)[1].strip().strip('"')
            elif s.startswith("- Location:"):
                cur_loc = s.split(":", 1)[1].strip()
            elif s.startswith("SUMMARY:") or s.startswith("VERIFICATION:"):
                checks.append((cur, cur_status, cur_desc, cur_loc))
                cur = None
    if cur is not None:
        checks.append((cur, cur_status, cur_desc, cur_loc))
    for name, st, desc, loc in checks:
        if ".cover." in name or name.endswith(".cover"):
            res.covers["%s @ %s" % (desc, (loc or "").split(" in ")[0])] = st
        else:
            res.checks_total += 1
            if st not in ("SUCCESS",):
                if st in ("FAILURE", "ERROR", "UNDETERMINED", "UNREACHABLE") and st != "UNREACHABLE":
                    res.checks_failed += 1
                    res.failed_checks.append({"check": name, "status": st, "description": desc, "location": loc})
    m = re.search(r"Verification Time: ([0-9.]+)s", text)
    if m:
        res.solver_s = float(m.group(1))
    m = re.search(r"Generated (\d+) VCC\(s\), (\d+) remaining after simplification", text)
    if m:
        res.vccs = int(m.group(2))
    m = re.search(r"size of program expression: (\d+) steps", text)
    if m:
        res.program_steps = int(m.group(1))
    verdict = None
    m = re.search(r"VERIFICATION:- (SUCCESSFUL|FAILED)", text)
    if m:
        verdict = m.group(1)
    return verdict


def base_dir(ov, h):
    """directory of the overlay flavor this harness runs in"""
    if overlay.MOUNTS[h.file][0] == overlay.DIFF_MOUNT:
        return os.path.join(ov, "diff")
    return os.path.join(ov, "nd") if h.flavor == "nodebug" else ov


def run_one(h, ov, worker_dir, extra=None):
    res = Result(h)
    cmd = ["cargo", "kani", "--harness", module_path(h), "--exact", "--target-dir", worker_dir]
    if h.stubbing:
        cmd += ["-Z", "stubbing"]
    if extra:
        cmd += extra
    env = dict(os.environ)
    env["CARGO_NET_OFFLINE"] = "true"
    env.pop("RUSTFLAGS", None)
    logp = os.path.join(ov, "logs", h.name + ".log")
    res.log_path = logp
    t0 = time.time()

    def limits():
        os.setsid()
        lim = h.mem * 1024 * 1024 * 1024
        resource.setrlimit(resource.RLIMIT_AS, (lim, lim))

    with open(logp, "w") as fh:
        cwd = base_dir(ov, h)
        if h.flavor == "nodebug":
            cmd[cmd.index("--target-dir") + 1] = worker_dir + "_nd"
        p = subprocess.Popen(cmd, cwd=cwd, env=env, stdout=fh, stderr=subprocess.STDOUT, preexec_fn=limits)
        timed_out = False
        rc = None
        while True:
            try:
                rc = p.wait(timeout=5)
                break
            except subprocess.TimeoutExpired:
                pass
            # resident size of the whole process group (cargo-kani, kani-driver, cbmc)
            try:
                out = subprocess.run(["ps", "-o", "rss=", "-g", str(p.pid)], stdout=subprocess.PIPE, text=True).stdout
                rss = sum(int(x) for x in out.split() if x.isdigit()) // 1024
                res.peak_rss_mb = max(res.peak_rss_mb, rss)
            except Exception:  # noqa: BLE001
                pass
            if time.time() - t0 > h.timeout:
                timed_out = True
                try:
                    os.killpg(p.pid, signal.SIGKILL)
                except ProcessLookupError:
                    pass
                p.wait()
                rc = -9
                break
    res.wall_s = time.time() - t0
    text = open(logp, errors="replace").read()
    if timed_out:
        res.status, res.reason = "inconclusive", "timeout after %ds" % h.timeout
        return res
    if "error: could not compile" in text or re.search(r"^error(\[E\d+\])?:", text, re.M) and "VERIFICATION" not in text:
        errs = re.findall(r"^error.*$", text, re.M)[:5]
        res.status, res.reason = "inconclusive", "overlay does not compile: " + " | ".join(errs)
        return res
    verdict = parse_kani_output(text, res)
    if verdict is None:
        why = "no verdict (rc=%s)" % rc
        if re.search(r"bad_alloc|out of memory|Out of memory|memory exhausted", text):
            why = "solver ran out of memory (cap %d GB)" % h.mem
        res.status, res.reason = "inconclusive", why
        return res
    if re.search(r"ran out of memory|bad_alloc|std::bad_alloc", text):
        res.status, res.reason = "inconclusive", "solver ran out of memory (cap %d GB)" % h.mem
        return res
    unwind_fail = [c for c in res.failed_checks if "unwinding assertion" in (c["description"] or "")]
    if unwind_fail:
        res.status, res.reason = "inconclusive", "unwinding assertion failed: bound too small (%s)" % unwind_fail[0]["location"]
        return res
    err_status = [c for c in res.failed_checks if c["status"] in ("ERROR", "UNDETERMINED")]
    if verdict == "FAILED" and err_status and not [c for c in res.failed_checks if c["status"] == "FAILURE"]:
        res.status, res.reason = "inconclusive", "solver error / undetermined checks"
        return res
    if verdict == "SUCCESSFUL":
        res.status = "pass"
    else:
        res.status = "fail"
        if not res.failed_checks:
            # Kani reports FAILED without naming a failed property (solver crash, unsupported
            # construct, killed back end): that is not a counterexample
            res.status = "inconclusive"
            res.reason = "Kani reported FAILED without a failed check (back-end error)"
    return res


def preflight(ov):
    """Compile the overlay once (no codegen); returns the compiler's errors or ''."""
    env = dict(os.environ)
    env["CARGO_NET_OFFLINE"] = "true"
    env.pop("RUSTFLAGS", None)
    p = subprocess.run(["cargo", "kani", "-Z", "unstable-options", "--no-codegen", "--target-dir", os.path.join(ov, "t_pre")],
                       cwd=ov, env=env, stdout=subprocess.PIPE, stderr=subprocess.STDOUT, text=True, errors="replace")
    shutil.rmtree(os.path.join(ov, "t_pre"), ignore_errors=True)
    if p.returncode == 0:
        return ""
    errs = re.findall(r"^error(?:\[E\d+\])?:.*(?:\n\s+-->.*)?", p.stdout, re.M)
    return "\n".join(errs[:12]) or p.stdout[-2000:]


def select(harnesses, prop, tier, only):
    out = []
    for h in harnesses:
        if prop not in h.props:
            continue
        if tier == "quick" and h.tier != "quick":
            continue
        if only and not re.search(only, h.name):
            continue
        out.append(h)
    return out


def load_known():
    if not os.path.exists(KNOWN):
        return []
    return json.load(open(KNOWN)).get("findings", [])


def match_known(prop, res, known):
    """A failure is a known finding iff every failed check matches one entry's key
    (harness regex + failing location regex + optional description regex)."""
    matched = None
    for c in res.failed_checks:
        ok = None
        for k in known:
            if k.get("property") != prop or k.get("kind") != "known":
                continue
            key = k["key"]
            if not re.search(key["harness"], res.h.name):
                continue
            if not re.search(key["location"], c.get("location") or ""):
                continue
            if key.get("description") and not re.search(key["description"], c.get("description") or ""):
                continue
            ok = k
            break
        if ok is None:
            return None
        matched = ok
    return matched


def schedule(hs, ov, jobs, tier):
    """Run harnesses with a memory-aware pool; returns list of Result."""
    os.makedirs(os.path.join(ov, "logs"), exist_ok=True)
    seed = int(os.environ.get("VERIF_SEED", "0") or 0)
    order = sorted(hs, key=lambda h: (-h.timeout, h.name))
    if seed:
        import random
        rnd = random.Random(seed)
        rnd.shuffle(order)
        order.sort(key=lambda h: -h.timeout)
    results = []
    lock = threading.Condition()
    state = {"mem": 0, "running": 0}
    free_workers = list(range(jobs))

    def task(h):
        with lock:
            # budget by half the cap: the cap (RLIMIT_AS) is an upper bound on address space, the
            # typical resident size of a passing harness is a fraction of it
            while state["mem"] + h.budget() > TOTAL_MEM_GB and state["running"] > 0 or not free_workers:
                lock.wait()
            state["mem"] += h.budget()
            state["running"] += 1
            w = free_workers.pop()
        try:
            r = run_one(h, ov, os.path.join(ov, "t%d" % w))
        finally:
            with lock:
                state["mem"] -= h.budget()
                state["running"] -= 1
                free_workers.append(w)
                lock.notify_all()
        log("  [%s] %-44s %6.1fs solver %6.1fs wall %5d MB  checks=%d covers=%d %s" % (
            r.status.upper(), h.name, r.solver_s, r.wall_s, r.peak_rss_mb, r.checks_total, len(r.covers), r.reason))
        return r

    with concurrent.futures.ThreadPoolExecutor(max_workers=jobs) as ex:
        for r in ex.map(task, order):
            results.append(r)
    return results


def write_evidence(prop, tier, results, wall, violations, notes, known_lines):
    os.makedirs(EVIDENCE_DIR, exist_ok=True)
    passed = [r for r in results if r.status == "pass" and r.h.expect == "pass"]
    nontrivial = [r for r in passed if r.covers and all(v == "SATISFIED" for k, v in r.covers.items()
                                                        if not any(o in k for o in r.h.covers_optional))]
    samples = []
    for r in results:
        d = r.h.descriptor()
        d.update({
            "verdict": r.status if r.h.expect == "pass" else ("fails as required" if r.status == "fail" else r.status),
            "cbmc_checks": r.checks_total,
            "checks_failed": r.checks_failed,
            "cover_points": r.covers,
            "solver_s": round(r.solver_s, 2),
            "wall_s": round(r.wall_s, 2),
            "peak_rss_mb": r.peak_rss_mb,
            "vccs_after_simplification": r.vccs,
            "program_steps": r.program_steps,
        })
        if r.reason:
            d["reason"] = r.reason
        if r.failed_checks:
            d["failed_checks"] = r.failed_checks[:10]
        if r.replay:
            d["replay"] = r.replay
        samples.append(d)
    assumptions = sorted(set(filter(None, [r.h.assumes for r in results] + [("stubs: " + r.h.stubs) if r.h.stubs else "" for r in results])))
    assumptions += [
        "trusted: rustc/Kani MIR-to-goto translation, CBMC 6.11 + CaDiCaL, the overlay step (verbatim copy of /repo/src plus appended `mod` lines)",
        "Kani models the dev profile (debug assertions and overflow checks on)",
        "bounds are those listed per harness under coverage.samples[].bound; nothing is claimed outside them; unwinding assertions are on",
    ]
    ev = {
        "property_id": prop,
        "tier": tier,
        "seed": int(os.environ.get("VERIF_SEED", "0") or 0),
        "level": "model_checking",
        "coverage": {
            "evaluations": len(results),
            "distinct_nontrivial": len(nontrivial),
            "rule": "one evaluation = one bounded-model-checking query (cargo kani harness over the real code of /repo's working tree, "
                    "decided by CBMC/CaDiCaL for all values inside the bound); non-trivial = verified AND every kani::cover! "
                    "point of the harness came back SATISFIED (reachability/vacuity witness); harness names are distinct",
            "samples": samples,
            "cbmc_checks_total": sum(r.checks_total for r in results),
            "solver_s_total": round(sum(r.solver_s for r in results), 1),
            "negative_twins_failing_as_required": len([r for r in results if r.h.expect == "fail" and r.status == "fail"]),
            "inconclusive": [r.h.name for r in results if r.status == "inconclusive"],
            "attempts_not_closed": [r.h.name for r in results if r.status == "attempt-open"],
            "known_findings_reported": known_lines,
            "exhaustive": False,
            "explanation": notes,
        },
        "assumptions": assumptions,
        "wall_s": round(wall, 1),
        "violations": violations,
    }
    with open(os.path.join(EVIDENCE_DIR, prop + ".json"), "w") as fh:
        json.dump(ev, fh, indent=1)


def main(args):
    gen_for, harnesses = registry.load()
    if args.make_overlay:
        if args.prop == "diff":
            overlay.build_diff(args.make_overlay, gen_for)
        else:
            overlay.build(args.make_overlay, gen_for)
        for h in harnesses:
            print(module_path(h))
        return 0
    if args.list:
        for h in harnesses:
            print("%-8s %-9s %-50s %s" % (",".join(h.props), h.tier, h.name, h.file))
        return 0
    prop = args.prop
    if not prop:
        print("usage: check <ID> ...")
        return 2
    if args.replay:
        return replay_mod.replay_file(args.replay)
    hs = select(harnesses, prop, args.tier, args.only)
    if not hs:
        log("no harness registered for %s at tier %s" % (prop, args.tier))
        return 2
    jobs = args.jobs or int(os.environ.get("VERIF_JOBS", "14"))
    t0 = time.time()
    ov = tempfile.mkdtemp(prefix="verif-ov-%s-" % prop, dir=SCRATCH_ROOT)
    rc = 2
    try:
        is_diff = any(overlay.MOUNTS[h.file][0] == overlay.DIFF_MOUNT for h in hs)
        if is_diff:
            overlay.build_diff(ov, gen_for)
        else:
            overlay.build(ov, gen_for)
        if any(h.flavor == "nodebug" for h in hs):
            overlay.build(os.path.join(ov, "nd"), gen_for, debug_assertions=False)
        log("%s tier=%s: %d harnesses, overlay %s" % (prop, args.tier, len(hs), ov))
        pre = preflight(os.path.join(ov, "diff") if is_diff else ov)
        if pre:
            log("INCONCLUSIVE overlay does not compile against /repo's working tree:")
            log(pre)
            log("%s tier=%s: 0 harnesses run -> exit 2" % (prop, args.tier))
            return 2
        results = schedule(hs, ov, jobs, args.tier)
        known = load_known()
        violations = 0
        inconclusive = []
        attempts_open = []
        known_lines = []
        for r in results:
            h = r.h
            if h.expect == "fail":
                if r.status == "pass":
                    inconclusive.append((h.name, "negative twin verified: the harness family is vacuous"))
                elif r.status == "inconclusive":
                    inconclusive.append((h.name, r.reason))
                continue
            if r.status == "inconclusive" and h.attempt:
                attempts_open.append((h.name, r.reason))
                r.status = "attempt-open"
            elif r.status == "inconclusive":
                inconclusive.append((h.name, r.reason))
            elif r.status == "pass":
                bad = [k for k, v in r.covers.items() if v != "SATISFIED" and not any(o in k for o in h.covers_optional)]
                if bad:
                    inconclusive.append((h.name, "vacuous: cover point(s) not satisfied: " + "; ".join(bad[:3])))
                    r.status = "inconclusive"
                    r.reason = "cover not satisfied"
            elif r.status == "fail":
                k = match_known(prop, r, known)
                if k is not None:
                    line = "KNOWN-FINDING: property=%s %s" % (prop, k["what"])
                    if line not in known_lines:
                        known_lines.append(line)
                    continue
                rp = replay_mod.replay_failure(prop, r, ov, run_one)
                r.replay = rp
                if rp["reproduced"]:
                    violations += 1
                    log("VIOLATION property=%s replay=%s" % (prop, rp["path"]))
                else:
                    inconclusive.append((h.name, "counterexample did not reproduce natively: " + rp.get("why", "")))
        for line in known_lines:
            log(line)
        wall = time.time() - t0
        notes = ("Each harness is a bounded model check of redb's own compiled code (overlay of /repo's working tree). "
                 "See DESIGN.md section 4, %s, for what the harness family decides and what lies outside the claim." % prop)
        if not args.no_evidence and not args.only:
            write_evidence(prop, args.tier, results, wall, violations, notes, known_lines)
        for name, why in attempts_open:
            log("ATTEMPT harness=%s did not close (not part of the claim): %s" % (name, why))
        for name, why in inconclusive:
            log("INCONCLUSIVE harness=%s: %s" % (name, why))
        if violations:
            rc = 1
        elif inconclusive:
            rc = 2
        else:
            rc = 0
        log("%s tier=%s: %d harnesses, %d violations, %d inconclusive, %.0fs wall -> exit %d" % (
            prop, args.tier, len(results), violations, len(inconclusive), wall, rc))
        if args.keep or (rc == 2 and os.environ.get("VERIF_KEEP_ON_FAIL")):
            log("overlay kept at %s" % ov)
    finally:
        if not args.keep and not (rc == 2 and os.environ.get("VERIF_KEEP_ON_FAIL")):
            shutil.rmtree(ov, ignore_errors=True)
    return rc
