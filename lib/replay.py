"""Replay of solver counterexamples against the real code (DESIGN.md 3.9).

* Harness without Kani stubs: the solver's assignment is turned into a unit test by Kani's
  concrete playback and executed *natively* (rustc, no solver) inside the overlay - i.e. the
  real functions of /repo's working tree run on the concrete input and the harness' own
  assertion has to fail there too.
* Harness with stubs: the stubs are not linked outside Kani, so the harness cannot run
  natively.  Its counterexample is re-enacted through redb's public API by the native tool
  in /verif/replay_tool (built from /repo's working tree) where a scenario exists for it.
"""
import json
import os
import re
import shutil
import subprocess
import time

VERIF = os.path.dirname(os.path.dirname(os.path.abspath(__file__)))
REPLAY_DIR = os.path.join(VERIF, "replays")


def _env():
    env = dict(os.environ)
    env["CARGO_NET_OFFLINE"] = "true"
    env.pop("RUSTFLAGS", None)
    return env


def replay_failure(prop, res, ov, run_one):
    """returns dict(reproduced: bool, path: str, why: str, mode: str)"""
    h = res.h
    os.makedirs(os.path.join(REPLAY_DIR, prop), exist_ok=True)
    path = os.path.join(REPLAY_DIR, prop, h.name + ".json")
    rec = {
        "property": prop,
        "harness": h.name,
        "harness_file": "harness/" + h.file,
        "failed_checks": res.failed_checks[:20],
        "asserts": h.desc,
        "bound": h.bound,
    }
    out = {"reproduced": False, "path": path, "why": "", "mode": ""}
    if not h.replay.startswith("native"):
        import scenarios
        sc = scenarios.reenact(prop, res, ov, rec)
        out.update(sc)
        rec["replay"] = sc
        with open(path, "w") as fh:
            json.dump(rec, fh, indent=1)
        return out
    # 1. ask Kani for the concrete assignment, written in place as a unit test
    import driver
    base = driver.base_dir(ov, h)
    hfile = os.path.join(base, "src", "h.rs") if base.endswith("diff") else os.path.join(base, "h", h.file)
    # `print` mode (in-place insertion lands inside macro definitions for macro-generated
    # harnesses and is then expanded more than once)
    # the trace-producing run needs more memory and time than the verifying run
    import copy
    h2 = copy.copy(h)
    h2.mem = max(h.mem * 3, 24)
    h2.timeout = h.timeout * 2
    r2 = run_one(h2, ov, os.path.join(ov, "t_replay"), extra=["-Z", "concrete-playback", "--concrete-playback=print"])
    logtext = open(r2.log_path, errors="replace").read() if r2.log_path else ""
    # Kani prints one unit test per failed check AND per satisfied cover point: keep the ones
    # generated for failed checks (every test is tried; one native failure is a reproduction)
    blocks = re.findall(r"Concrete playback unit test for `[^`]*`:\s*```\n(.*?)```", logtext, re.S)
    non_cover = [b for b in blocks if not re.search(r"Check for `cover`", b)]
    blocks = non_cover or blocks
    tests = []
    for b in blocks:
        m = re.search(r"fn (kani_concrete_playback_\w+)\s*\(", b)
        if m and m.group(1) not in [t for t, _ in tests]:
            tests.append((m.group(1), b))
    tests = tests[:6]
    if not tests:
        out["why"] = "Kani produced no concrete playback test (%s)" % (r2.reason or r2.status)
        rec["replay"] = out
        with open(path, "w") as fh:
            json.dump(rec, fh, indent=1)
        return out
    rec["concrete_tests"] = [b for _, b in tests]
    with open(hfile, "a") as fh:
        for _, b in tests:
            fh.write("\n" + b + "\n")
    vals = re.findall(r"//\s*(.*)\n\s*vec!\[([0-9, ]*)\]", tests[0][1])
    rec["assignment"] = [{"value": a_.strip(), "bytes": b_.strip()} for a_, b_ in vals][:300]
    # 2. run it natively (dev profile, the one Kani models; `cargo kani playback` has no
    #    release mode)
    runs = []
    reproduced = False
    for test, body in tests:
        cmd = ["cargo", "kani", "playback", "-Z", "concrete-playback", "--", test]
        t0 = time.time()
        p = subprocess.run(cmd, cwd=base, env=_env(), stdout=subprocess.PIPE, stderr=subprocess.STDOUT,
                           timeout=1800, text=True, errors="replace")
        txt = p.stdout
        # the harness' assertion fails natively: a failed test, or - when the panic unwinds into a
        # destructor - an aborted test process (SIGABRT) after "panicked at" in the test's thread
        failed = (bool(re.search(r"test result: FAILED", txt)) and "1 failed" in txt) or \
                 (p.returncode != 0 and bool(re.search(r"thread '[^']*%s[^']*'[^\n]*panicked at" % re.escape(test), txt)))
        ran = bool(re.search(r"running 1 test", txt))
        tail = "\n".join(txt.splitlines()[-25:])
        runs.append({"profile": "dev", "test": test, "ran": ran, "failed_natively": failed,
                     "wall_s": round(time.time() - t0, 1), "output_tail": tail})
        if failed:
            reproduced = True
            rec["concrete_test"] = body
            break
    rec["native_runs"] = runs
    out["mode"] = "kani concrete playback, native execution"
    out["reproduced"] = reproduced
    if not reproduced:
        out["why"] = "the generated test(s) pass natively"
    rec["replay"] = dict(out)
    with open(path, "w") as fh:
        json.dump(rec, fh, indent=1)
    return out


def replay_file(path):
    """Re-run a stored counterexample: rebuild the overlay, write the recorded unit test into the
    harness module and run it natively."""
    import tempfile
    import overlay
    import registry
    rec = json.load(open(path))
    gen_for, hs = registry.load()
    h = [x for x in hs if x.name == rec["harness"]]
    if not h:
        print("unknown harness %s" % rec["harness"])
        return 2
    h = h[0]
    if "concrete_test" not in rec:
        if not rec.get("scenario"):
            print("this record has neither a native unit test nor a reproducing scenario; see its 'replay' field")
            print(json.dumps(rec.get("replay"), indent=1))
            return 2
        import scenarios
        ov = tempfile.mkdtemp(prefix="verif-replay-", dir=os.environ.get("VERIF_SCRATCH", "/tmp"))
        try:
            overlay.build(ov, gen_for)
            results = scenarios.run_scenarios(ov, [rec["scenario"]])
            print(json.dumps(results, indent=1))
            if any(r.get("reproduced") for r in results):
                print("VIOLATION property=%s replay=%s" % (rec["property"], path))
                return 1
            print("the recorded scenario does not reproduce on the current tree")
            return 0
        finally:
            shutil.rmtree(ov, ignore_errors=True)
    ov = tempfile.mkdtemp(prefix="verif-replay-", dir=os.environ.get("VERIF_SCRATCH", "/tmp"))
    try:
        overlay.build(ov, gen_for)
        hfile = os.path.join(ov, "h", h.file)
        with open(hfile, "a") as fh:
            fh.write("\n" + rec["concrete_test"] + "\n")
        m = re.search(r"fn (kani_concrete_playback_\w+)\s*\(", rec["concrete_test"])
        cmd = ["cargo", "kani", "playback", "-Z", "concrete-playback", "--", m.group(1)]
        p = subprocess.run(cmd, cwd=ov, env=_env(), stdout=subprocess.PIPE, stderr=subprocess.STDOUT, text=True)
        print("\n".join(p.stdout.splitlines()[-30:]))
        failed = "1 failed" in p.stdout or (p.returncode != 0 and "panicked at" in p.stdout and "running 1 test" in p.stdout)
        if failed:
            print("VIOLATION property=%s replay=%s" % (rec["property"], path))
            return 1
        print("the recorded counterexample does not fail on the current tree")
        return 0
    finally:
        shutil.rmtree(ov, ignore_errors=True)
