"""Replay of solver counterexamples against the real code (DESIGN.md 3.9).

* Harness without Kani stubs: the solver's assignment is turned into a unit test by Kani's
  concrete playback and executed *natively* (rustc, no solver) inside the overlay - i.e. the
  real functions of /repo's working tree run on the concrete input and the harness' own
  assertion has to fail there too.
* Harness with stubs: the stubs are not linked outside Kani, so the harness cannot run
  natively.  Its counterexample is re-enacted through redb's public API by the native tool
  in /verif/replay_tool (built from /repo's working tree) where a scenario exists for it.
"""
import json
import os
import re
import shutil
import subprocess
import time

VERIF = os.path.dirname(os.path.dirname(os.path.abspath(__file__)))
REPLAY_DIR = os.path.join(VERIF, "replays")


def _env():
    env = dict(os.environ)
    env["CARGO_NET_OFFLINE"] = "true"
    env.pop("RUSTFLAGS", None)
    return env


def replay_failure(prop, res, ov, run_one):
    """returns dict(reproduced: bool, path: str, why: str, mode: str)"""
    h = res.h
    os.makedirs(os.path.join(REPLAY_DIR, prop), exist_ok=True)
    path = os.path.join(REPLAY_DIR, prop, h.name + ".json")
    rec = {
        "property": prop,
        "harness": h.name,
        "harness_file": "harness/" + h.file,
        "failed_checks": res.failed_checks[:20],
        "asserts": h.desc,
        "bound": h.bound,
    }
    out = {"reproduced": False, "path": path, "why": "", "mode": ""}
    if h.stubbing:
        import scenarios
        sc = scenarios.reenact(prop, res, ov, rec)
        out.update(sc)
        rec["replay"] = sc
        with open(path, "w") as fh:
            json.dump(rec, fh, indent=1)
        return out
    # 1. ask Kani for the concrete assignment, written in place as a unit test
    import driver
    hfile = os.path.join(ov, "h", h.file)
    before = open(hfile).read()
    r2 = run_one(h, ov, os.path.join(ov, "t_replay"), extra=["-Z", "concrete-playback", "--concrete-playback=inplace"])
    after = open(hfile).read()
    m = re.search(r"fn (kani_concrete_playback_%s_\w+)\s*\(" % re.escape(h.name), after)
    if after == before or not m:
        out["why"] = "Kani produced no concrete playback test (%s)" % (r2.reason or r2.status)
        rec["replay"] = out
        with open(path, "w") as fh:
            json.dump(rec, fh, indent=1)
        return out
    test = m.group(1)
    added = after[after.index("#[test]", after.index(test) - 200 if after.index(test) > 200 else 0):] if "#[test]" in after else ""
    # the generated test, for the record
    tm = re.search(r"(/// Test generated for harness.*?^})\s*$", after, re.S | re.M)
    rec["concrete_test"] = tm.group(1) if tm else added[:4000]
    vals = re.findall(r"//\s*(.*)\n\s*vec!\[([0-9, ]*)\]", after)
    rec["assignment"] = [{"value": a.strip(), "bytes": b.strip()} for a, b in vals][:200]
    # 2. run it natively, dev profile (what Kani models) and release profile (what users run)
    runs = []
    reproduced = False
    for prof in ([], ["--release"]):
        cmd = ["cargo", "kani", "playback", "-Z", "concrete-playback"] + prof + ["--", test]
        t0 = time.time()
        p = subprocess.run(cmd, cwd=ov, env=_env(), stdout=subprocess.PIPE, stderr=subprocess.STDOUT,
                           timeout=1800, text=True, errors="replace")
        txt = p.stdout
        failed = bool(re.search(r"test result: FAILED|panicked at", txt)) and "1 failed" in txt
        ran = bool(re.search(r"running 1 test", txt))
        tail = "\n".join(txt.splitlines()[-25:])
        runs.append({"profile": "release" if prof else "dev", "ran": ran, "failed_natively": failed,
                     "wall_s": round(time.time() - t0, 1), "output_tail": tail})
        if failed:
            reproduced = True
    rec["native_runs"] = runs
    out["mode"] = "kani concrete playback, native execution"
    out["reproduced"] = reproduced
    if not reproduced:
        out["why"] = "the generated test passes natively in both profiles"
    rec["replay"] = dict(out)
    with open(path, "w") as fh:
        json.dump(rec, fh, indent=1)
    return out


def replay_file(path):
    """Re-run a stored counterexample: rebuild the overlay, write the recorded unit test into the
    harness module and run it natively."""
    import tempfile
    import overlay
    import registry
    rec = json.load(open(path))
    gen_for, hs = registry.load()
    h = [x for x in hs if x.name == rec["harness"]]
    if not h:
        print("unknown harness %s" % rec["harness"])
        return 2
    h = h[0]
    if "concrete_test" not in rec:
        print("this record has no native unit test (stubbed harness); see its 'replay' field")
        print(json.dumps(rec.get("replay"), indent=1))
        return 2
    ov = tempfile.mkdtemp(prefix="verif-replay-", dir=os.environ.get("VERIF_SCRATCH", "/tmp"))
    try:
        overlay.build(ov, gen_for)
        hfile = os.path.join(ov, "h", h.file)
        with open(hfile, "a") as fh:
            fh.write("\n" + rec["concrete_test"] + "\n")
        m = re.search(r"fn (kani_concrete_playback_\w+)\s*\(", rec["concrete_test"])
        cmd = ["cargo", "kani", "playback", "-Z", "concrete-playback", "--", m.group(1)]
        p = subprocess.run(cmd, cwd=ov, env=_env(), stdout=subprocess.PIPE, stderr=subprocess.STDOUT, text=True)
        print("\n".join(p.stdout.splitlines()[-30:]))
        failed = "1 failed" in p.stdout
        if failed:
            print("VIOLATION property=%s replay=%s" % (rec["property"], path))
            return 1
        print("the recorded counterexample does not fail on the current tree")
        return 0
    finally:
        shutil.rmtree(ov, ignore_errors=True)
