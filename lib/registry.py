"""Harness registry.

Two sources:
 * annotation blocks in the harness files, directly above a `#[kani::proof]` function:
       // @harness props=C14 tier=quick timeout=300 mem=8 [expect=fail] [stubbing=1]
       // @desc  free text (what is asserted)
       // @functions  real functions encoded
       // @bound  what the solver does not range over
       // @stubs  stubs in place
       // @assumes  assumptions (kani::assume) in place
 * generator tables below (shape case-splits), which emit both the Rust instantiation lines
   (substituted for `// @GEN` in the harness file) and the registry records.
"""
import os
import re

from overlay import HARNESS_DIR, MOUNTS


class Harness:
    def __init__(self, name, file, props, tier="quick", timeout=600, mem=16, expect="pass",
                 desc="", functions="", bound="", stubs="", assumes="", stubbing=False,
                 shape=None, covers_optional=(), replay=None, flavor="debug", attempt=False, rss=None):
        self.name = name
        self.file = file
        self.props = props
        self.tier = tier
        self.timeout = int(timeout)
        self.mem = int(mem)
        # rss: measured peak resident size in GB (+ margin), used by the scheduler's memory budget;
        # `mem` stays the hard RLIMIT_AS cap.  Without a measurement the budget is half the cap.
        self.rss = float(rss) if rss else None
        self.expect = expect
        self.desc = desc
        self.functions = functions
        self.bound = bound
        self.stubs = stubs
        self.assumes = assumes
        self.stubbing = stubbing
        self.shape = shape
        self.covers_optional = tuple(covers_optional)
        # how a counterexample of this harness is replayed against the real code:
        #   native            Kani concrete playback, executed natively (harness has no stubs, or
        #                     only semantically transparent ones: fmt::format, panicking, from_utf8)
        #   scenario:<name>   re-enactment through the public API by /verif/replay_tool
        self.replay = replay or ("native" if not stubbing else "none")
        # "debug": dev profile with debug assertions (default); "nodebug": debug-assertions = false
        self.flavor = flavor
        # attempt: a harness that is known not to close (or has never been seen to close) within
        # its cap.  It is run, and a pass or a reproduced counterexample counts like any other;
        # a timeout / out-of-memory is reported as "ATTEMPT did not close" and does not make the
        # check inconclusive.  Nothing is claimed from an attempt that did not close.
        self.attempt = attempt

    def budget(self):
        return self.rss if self.rss else self.mem / 2.0

    def descriptor(self):
        d = {
            "harness": self.name,
            "file": "harness/" + self.file,
            "mounted_under": MOUNTS[self.file][0],
            "asserts": self.desc,
            "functions_encoded": self.functions,
            "bound": self.bound,
        }
        if self.stubs:
            d["stubs"] = self.stubs
        if self.assumes:
            d["assumptions"] = self.assumes
        if self.shape is not None:
            d["shape"] = self.shape
        if self.flavor != "debug":
            d["profile"] = "debug-assertions = false (release-like; redb's debug-only bookkeeping compiled out)"
        if self.expect == "fail":
            d["role"] = "negative twin: must FAIL (reachability / vacuity witness)"
        if self.attempt:
            d["role"] = "attempt: not part of the claim unless it closes"
        return d


def parse_annotations(hf):
    path = os.path.join(HARNESS_DIR, hf)
    out = []
    cur = None
    lines = open(path).read().splitlines()
    for i, line in enumerate(lines):
        s = line.strip()
        m = re.match(r"//\s*@harness\s+(.*)$", s)
        if m:
            cur = {"kv": dict(kv.split("=", 1) for kv in m.group(1).split()),
                   "desc": "", "functions": "", "bound": "", "stubs": "", "assumes": ""}
            continue
        if cur is not None:
            m = re.match(r"//\s*@(desc|functions|bound|stubs|assumes)\s+(.*)$", s)
            if m:
                cur[m.group(1)] = (cur[m.group(1)] + " " + m.group(2)).strip()
                cur["_last"] = m.group(1)
                continue
            m = re.match(r"//\s{2,}(.*)$", s)
            if m and cur.get("_last"):
                cur[cur["_last"]] = (cur[cur["_last"]] + " " + m.group(1)).strip()
                continue
            m = re.match(r"(?:pub(?:\(crate\))?\s+)?fn\s+([A-Za-z0-9_]+)\s*\(", s)
            inv = re.match(r"[a-z0-9_]+!\(\s*([A-Za-z0-9_]+)\s*,.*\);\s*$", s)
            if not m and inv:
                # macro invocation(s) generating a harness: one annotation block may cover a
                # run of consecutive invocations
                m = inv
                keep = cur
            else:
                keep = None
            if m:
                kv = cur["kv"]
                out.append(Harness(
                    name=m.group(1), file=hf, props=kv.get("props", "").split(","),
                    tier=kv.get("tier", "quick"), timeout=kv.get("timeout", 600),
                    mem=kv.get("mem", 16), expect=kv.get("expect", "pass"),
                    stubbing=kv.get("stubbing", "0") == "1",
                    desc=cur["desc"], functions=cur["functions"], bound=cur["bound"],
                    stubs=cur["stubs"], assumes=cur["assumes"],
                    covers_optional=tuple(x for x in kv.get("optcover", "").split("|") if x),
                    replay=kv.get("replay"), flavor=kv.get("flavor", "debug"),
                    attempt=kv.get("attempt", "0") == "1", rss=kv.get("rss")))
                cur = keep
                if keep is not None:
                    keep["_used"] = True
                continue
            if cur.get("_used"):
                # first line after a run of macro invocations ends the block
                cur = None
    return out


# ------------------------------------------------------------------------------------------
# Generators

BUDDY_KINDS = {
    # kind: (props, desc, functions)
    "alloc": (["C14"],
              "one alloc(o) from any R-state: Some(x) => block inside region, was entirely free, free set "
              "shrank by exactly the block, R holds; None => no aligned free run of 2^o pages existed and "
              "no word changed; alloc followed by free of the returned block restores every word",
              "BuddyAllocator::{alloc,alloc_inner,free,free_inner}, BtreeBitmap::{alloc,find_first_unset,set,clear,get,update_to_root}, U64GroupedBitmap::{first_unset,set,clear,get}"),
    "alloc_lowest": (["C14"],
                     "one alloc_lowest(o) from any R-state: as alloc, and the returned index is the lowest "
                     "aligned free run of 2^o pages in the pre-state",
                     "BuddyAllocator::{alloc_lowest,alloc_inner,free_inner,free}, BtreeBitmap::*"),
    "alloc_free": (["C14"],
                   "alloc(o) followed by free of the returned block restores every bitmap word (and R, and the free set)",
                   "BuddyAllocator::{alloc,alloc_inner,free,free_inner}, BtreeBitmap::*"),
    "lowest_free": (["C14"],
                    "alloc_lowest(o) followed by free of the returned block restores every bitmap word",
                    "BuddyAllocator::{alloc_lowest,alloc_inner,free,free_inner}, BtreeBitmap::*"),
    "free": (["C14"],
             "one free(x,o) of an allocated block from any R-state: free set grew by exactly the block, "
             "R holds afterwards (so buddies are merged maximally), returned order m >= o is the order at "
             "which the block is now marked, no bitmap above m changed",
             "BuddyAllocator::{free,free_inner}, BtreeBitmap::{get,set,clear,len,update_to_root}"),
    "record_alloc": (["C14", "C11"],
                     "one record_alloc(x,o) with any 20-bit x and any order from any R-state: true => block in "
                     "range, was entirely free, exactly it was removed, R holds; false => out of range, order "
                     "too large or overlapping an allocated page; never panics",
                     "BuddyAllocator::{record_alloc,record_alloc_inner}, BtreeBitmap::{get,set,clear,len}"),
    "new": (["C14", "C11"],
            "BuddyAllocator::new(n, cap) satisfies R with every page free; its structure equals the "
            "struct-literal shape the other harnesses start from",
            "BuddyAllocator::new, BtreeBitmap::{new_padded,new,clear}, U64GroupedBitmap::new_full"),
    "codec": (["C14", "C11"],
              "from_bytes(to_vec(a)) has the same free set, words, len and max order as a, for any R-state; "
              "to_vec length depends only on (n, cap)",
              "BuddyAllocator::{to_vec,from_bytes,new}, BtreeBitmap::{to_vec,from_bytes}, U64GroupedBitmap::{to_vec,from_bytes}"),
    "queries": (["C14"],
                "count_free_pages, count_allocated_pages, trailing_free_pages, highest_free_order equal the "
                "values computed from the free set, for any R-state",
                "BuddyAllocator::{count_free_pages,count_allocated_pages,trailing_free_pages,find_free_order,highest_free_order}"),
}


LIGHT = ("alloc", "alloc_free", "free", "record_alloc", "new", "queries")
HEAVY = ("alloc_lowest", "lowest_free", "codec")


def buddy_plan():
    """[(kind, n, cap, tier)].  Region length is a case split (it sizes Vecs); capacity 16 has
    5 orders with single-word bitmaps, capacity 128 has 8 orders and a two-level order-0 bitmap.
    alloc_lowest and the codec loop over Vecs and only close for small capacities."""
    plan = []
    for n in range(1, 17):
        tier = "quick" if n in (16, 13, 11, 6) else "thorough"
        for k in LIGHT:
            plan.append((k, n, 16, tier))
    for n, c in ((4, 4), (3, 4), (8, 8), (7, 8), (5, 8)):
        for k in HEAVY:
            # attempted only: none of these closes (DESIGN.md 9.1); kept in the thorough tier so
            # that the attempt is repeated and reported, never claimed
            plan.append((k, n, c, "thorough"))
    for n in (128, 127, 77, 64, 65):
        for k in LIGHT:
            plan.append((k, n, 128, "thorough"))
    return plan


RESIZE_PLAN = [(11, 16, 16, "quick"), (6, 13, 16, "thorough"), (16, 11, 16, "quick"), (13, 6, 16, "thorough"),
               (5, 6, 16, "thorough"), (8, 12, 16, "thorough"), (1, 16, 16, "thorough"), (12, 8, 16, "thorough"),
               (16, 1, 16, "thorough"), (7, 9, 16, "thorough"), (15, 16, 16, "thorough"), (16, 15, 16, "thorough")]


def gen_buddy():
    lines = []
    recs = []
    for n, m, c, tier in RESIZE_PLAN:
        name = "c14_resize_n%d_to%d_c%d" % (n, m, c)
        lines.append("buddy_harness!(%s, %s, %d, %d, %d, %d);" % (name, "grow" if m > n else "shrink", n, m, c, max(n, m, 8) + 3))
        recs.append(Harness(
            name=name, file="buddy_h.rs", props=["C14"], tier=tier, timeout=2400, mem=16,
            desc="one resize(m) of a region of length n from any R-state: growing keeps the state of every old page "
                 "and makes exactly the pages n..m free, merged with free neighbours at the largest aligned size "
                 "(R holds at the new length); shrinking - under resize's own precondition that the cut pages "
                 "are all free - keeps the state of every remaining page and R holds at the new length",
            functions="BuddyAllocator::{resize,free_inner,record_alloc_inner,debug_check_consistency}, "
                      "BtreeBitmap::{resize,get,set,clear,update_to_root}, U64GroupedBitmap::resize",
            bound="region length %d -> %d, region capacity %d (orders 0..=%d); every bitmap word symbolic" % (
                n, m, c, c.bit_length() - 1),
            assumes="pre-state satisfies R (DESIGN.md C14); when shrinking, pages m..n are free (resize asserts it)",
            shape={"n": n, "m": m, "cap": c}))
    for k, n, c, tier in buddy_plan():
        name = "c14_%s_n%d_c%d" % (k, n, c)
        lines.append("buddy_harness!(%s, %s, %d, %d, %d);" % (name, k, n, c, max(n, 8) + 3))
        props, desc, funcs = BUDDY_KINDS[k]
        recs.append(Harness(
            name=name, file="buddy_h.rs", props=props, tier=tier,
            timeout=900 if c <= 16 else 3600, mem=12 if c <= 16 else 24,
            desc=desc, functions=funcs,
            bound="region length n=%d, region capacity %d (orders 0..=%d); every bitmap word, the order and "
                  "the block index symbolic" % (n, c, c.bit_length() - 1),
            assumes="pre-state satisfies R (DESIGN.md C14)" if k != "new" else "",
            shape={"n": n, "cap": c}, attempt=(k in HEAVY or c > 16)))
    return "\n".join(lines), recs


GENERATORS = {"buddy_h.rs": gen_buddy}


def load():
    """returns (gen_for: {file: rust text}, harnesses: [Harness])"""
    gen_for = {}
    hs = []
    for hf in MOUNTS:
        if not os.path.exists(os.path.join(HARNESS_DIR, hf)):
            continue
        hs.extend(parse_annotations(hf))
        if hf in GENERATORS:
            text, recs = GENERATORS[hf]()
            gen_for[hf] = text
            hs.extend(recs)
    names = [h.name for h in hs]
    assert len(names) == len(set(names)), "duplicate harness names"
    return gen_for, hs
