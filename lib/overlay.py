"""Overlay builder: a scratch copy of /repo's working tree with the harness modules of
/verif/harness appended to the files whose private items they need (DESIGN.md 3.1).

Nothing in /repo is modified.  The overlay is regenerated on every run, so the encoding the
solver sees is always that of /repo's *current* source.
"""
import os
import re
import shutil
import subprocess

REPO = os.environ.get("VERIF_REPO", "/repo")
VERIF = os.path.dirname(os.path.dirname(os.path.abspath(__file__)))
HARNESS_DIR = os.path.join(VERIF, "harness")

# harness file -> (source file it is mounted under, module name)
MOUNTS = {
    "bitmap_h.rs": ("src/tree_store/page_store/bitmap.rs", "verif_kani"),
    "buddy_h.rs": ("src/tree_store/page_store/buddy_allocator.rs", "verif_kani"),
    "types_h.rs": ("src/types.rs", "verif_kani"),
    "header_h.rs": ("src/tree_store/page_store/header.rs", "verif_kani"),
    "cf_h.rs": ("src/tree_store/page_store/cached_file.rs", "verif_kani"),
    "region_h.rs": ("src/tree_store/page_store/region.rs", "verif_kani"),
    "pm_h.rs": ("src/tree_store/page_store/page_manager.rs", "verif_kani"),
    "btree_h.rs": ("src/tree_store/btree_base.rs", "verif_kani"),
    "btreepol_h.rs": ("src/tree_store/btree_base.rs", "verif_kani_pol"),
    "tt_h.rs": ("src/tree_store/table_tree_base.rs", "verif_kani"),
    "tracker_h.rs": ("src/transaction_tracker.rs", "verif_kani"),
    "base_h.rs": ("src/tree_store/page_store/base.rs", "verif_kani"),
    "btreev_h.rs": ("src/tree_store/btree.rs", "verif_kani"),
    "db_h.rs": ("src/db.rs", "verif_kani"),
}


def _features_block():
    txt = open(os.path.join(REPO, "Cargo.toml")).read()
    m = re.search(r"^\[features\]\n(.*?)(?=^\[)", txt, re.S | re.M)
    feats = []
    if m:
        for line in m.group(1).splitlines():
            mm = re.match(r"^([A-Za-z0-9_\-]+)\s*=\s*\[(.*)\]", line)
            if mm:
                name = mm.group(1)
                deps = [d.strip() for d in mm.group(2).split(",") if d.strip()]
                # optional dependencies are not part of the overlay
                deps = [d for d in deps if not d.strip('"').startswith("dep:")]
                feats.append("%s = [%s]" % (name, ", ".join(deps)))
    return "\n".join(feats)


def _version():
    txt = open(os.path.join(REPO, "Cargo.toml")).read()
    m = re.search(r'^version\s*=\s*"([^"]+)"', txt, re.M)
    return m.group(1) if m else "0.0.0"


CARGO_TOML = """[package]
name = "redb"
version = "{version}"
edition = "2024"
build = "build.rs"

[workspace]

[dependencies]

[features]
{features}

[profile.dev]
debug-assertions = true
overflow-checks = true

[lints.rust]
unexpected_cfgs = {{ level = "allow" }}
"""


def build(ov, gen_for=None, debug_assertions=True):
    """Create the overlay in directory `ov` (must not be inside /repo or /verif).

    gen_for: dict harness_file -> generated Rust text replacing the `// @GEN` marker.
    Returns the list of mounted harness files."""
    os.makedirs(ov, exist_ok=True)
    for sub in ("src", "h"):
        p = os.path.join(ov, sub)
        if os.path.exists(p):
            shutil.rmtree(p)
    shutil.copytree(os.path.join(REPO, "src"), os.path.join(ov, "src"))
    for f in ("build.rs", "Cargo.lock"):
        if os.path.exists(os.path.join(REPO, f)):
            shutil.copy(os.path.join(REPO, f), os.path.join(ov, f))
    with open(os.path.join(ov, "Cargo.toml"), "w") as fh:
        toml = CARGO_TOML.format(version=_version(), features=_features_block())
        if not debug_assertions:
            # release-like flavor: redb's debug-only bookkeeping (hash sets of open pages etc.)
            # compiles out; overflow checks stay on
            toml = toml.replace("debug-assertions = true", "debug-assertions = false")
        fh.write(toml)
    # Cargo.lock of the workspace names dev-dependencies that the overlay does not have; a
    # lock file with only the package itself is what the overlay needs
    with open(os.path.join(ov, "Cargo.lock"), "w") as fh:
        fh.write('version = 4\n\n[[package]]\nname = "redb"\nversion = "%s"\n' % _version())
    # The overlay has no dev-dependencies, and counterexamples are replayed with
    # `cargo kani playback`, which builds the crate in test mode: compile the repository's own
    # #[cfg(test)] items out (they are not part of the verified, non-test build anyway).
    for root, _dirs, files in os.walk(os.path.join(ov, "src")):
        for f in files:
            if f.endswith(".rs"):
                p = os.path.join(root, f)
                t = open(p).read()
                if "#[cfg(test)]" in t:
                    open(p, "w").write(t.replace("#[cfg(test)]", "#[cfg(any())]"))
    # harness stubs of std internals (Arc::drop_slow) need an unstable feature; cfg(kani) only
    lib = os.path.join(ov, "src", "lib.rs")
    lib_text = open(lib).read()
    open(lib, "w").write("#![cfg_attr(kani, feature(allocator_api))]\n" + lib_text)
    os.makedirs(os.path.join(ov, "h"))
    mounted = []
    for hf, (mount, modname) in MOUNTS.items():
        src = os.path.join(HARNESS_DIR, hf)
        if not os.path.exists(src) or mount.startswith("@"):
            continue
        text = open(src).read()
        gen = (gen_for or {}).get(hf, "")
        text = text.replace("// @GEN", gen)
        dst = os.path.join(ov, "h", hf)
        with open(dst, "w") as fh:
            fh.write(text)
        target = os.path.join(ov, mount)
        if not os.path.exists(target):
            raise RuntimeError("mount point %s does not exist in /repo" % mount)
        with open(target, "a") as fh:
            fh.write('\n#[cfg(kani)]\n#[path = "%s"]\npub(crate) mod %s;\n' % (dst, modname))
        mounted.append(hf)
    # crate-visible constructor of the struct-literal TransactionalMemory (page_manager is a
    # private module of page_store, which is private to tree_store): re-export chain
    with open(os.path.join(ov, "src/tree_store/page_store/mod.rs"), "a") as fh:
        fh.write("\n#[cfg(kani)]\npub(crate) use page_manager::verif_kani::literal_mem_default as verif_literal_mem;\n"
                 "#[cfg(kani)]\npub(crate) use page_manager::verif_kani::literal_mem_concrete as verif_literal_mem_concrete;\n"
                 "#[cfg(all(kani, not(debug_assertions)))]\npub(crate) use base::verif_kani::page_impl as verif_page_impl;\n"
                 "#[cfg(kani)]\npub(crate) use page_manager::verif_kani::{set_cur_mem as verif_set_cur_mem, backend_counters as verif_backend_counters, events as verif_events, image_god_byte as verif_image_god_byte};\n"
)
    with open(os.path.join(ov, "src/tree_store/mod.rs"), "a") as fh:
        fh.write("\n#[cfg(kani)]\npub(crate) use page_store::{verif_literal_mem, verif_literal_mem_concrete, verif_set_cur_mem, verif_backend_counters, verif_events, verif_image_god_byte};\n"
                 "#[cfg(all(kani, not(debug_assertions)))]\npub(crate) use page_store::verif_page_impl;\n")
    return mounted


# ---------------------------------------------------------------------------------------------
# C19: differential crate against redb 3.0.0 (the released reader, from the cargo cache)

EXPORT_DIR = os.path.join(VERIF, "harness", "export")

# (source file, export file) appended to BOTH overlays; the export module is re-exported at the
# crate root through the chain of `pub use` lines below
EXPORTS_CUR = [("src/types.rs", "types_x.rs", "verif_export"),
               ("src/tree_store/page_store/header.rs", "header_x.rs", "verif_export"),
               ("src/tree_store/btree_base.rs", "btree_x.rs", "verif_export")]
EXPORTS_V3 = [("src/types.rs", "types_x_v3.rs", "verif_export"),
              ("src/tree_store/page_store/header.rs", "header_x.rs", "verif_export"),
              ("src/tree_store/btree_base.rs", "btree_x.rs", "verif_export")]
ROOT_REEXPORT = ("\n#[cfg(kani)]\npub use types::verif_export as vx_types;\n"
                 "#[cfg(kani)]\npub use tree_store::vx_header;\n#[cfg(kani)]\npub use tree_store::vx_btree;\n")
# private module chain: page_store -> tree_store -> crate root
CHAIN = [("src/tree_store/page_store/mod.rs", "\n#[cfg(kani)]\npub use header::verif_export as vx_header;\n"),
         ("src/tree_store/mod.rs", "\n#[cfg(kani)]\npub use page_store::vx_header;\n#[cfg(kani)]\npub use btree_base::verif_export as vx_btree;\n")]


def v3_source():
    import glob
    c = sorted(glob.glob(os.path.expanduser("~/.cargo/registry/src/*/redb-3.0.0")))
    if not c:
        raise RuntimeError("redb 3.0.0 sources not found in the cargo registry cache")
    return c[0]


def _append_exports(root, exports, tag):
    for src, xf, modname in exports:
        path = os.path.join(EXPORT_DIR, xf)
        dst = os.path.join(root, "hx_" + xf)
        shutil.copy(path, dst)
        with open(os.path.join(root, src), "a") as fh:
            fh.write('\n#[cfg(kani)]\n#[path = "%s"]\npub mod %s;\n' % (dst, modname))
    for f, text in CHAIN:
        with open(os.path.join(root, f), "a") as fh:
            fh.write(text)
    with open(os.path.join(root, "src", "lib.rs"), "a") as fh:
        fh.write(ROOT_REEXPORT)


def build_diff(ov, gen_for=None):
    """ov/cur: overlay of /repo (with harness mounts and exports), ov/v3: redb 3.0.0 with
    exports, ov/diff: the harness crate depending on both."""
    cur = os.path.join(ov, "cur")
    build(cur, gen_for)
    _append_exports(cur, EXPORTS_CUR, "cur")
    v3 = os.path.join(ov, "v3")
    if os.path.exists(v3):
        shutil.rmtree(v3)
    os.makedirs(v3)
    src = v3_source()
    shutil.copytree(os.path.join(src, "src"), os.path.join(v3, "src"))
    shutil.copy(os.path.join(src, "build.rs"), os.path.join(v3, "build.rs"))
    with open(os.path.join(v3, "Cargo.toml"), "w") as fh:
        fh.write("""[package]
name = "redb"
version = "3.0.0"
edition = "2024"
build = "build.rs"

[dependencies]

[features]
cache_metrics = []
logging = []

[lints.rust]
unexpected_cfgs = { level = "allow" }
""")
    _append_exports(v3, EXPORTS_V3, "v3")
    d = os.path.join(ov, "diff")
    os.makedirs(os.path.join(d, "src"), exist_ok=True)
    with open(os.path.join(d, "Cargo.toml"), "w") as fh:
        fh.write("""[package]
name = "redb_diff"
version = "0.0.0"
edition = "2024"

[workspace]

[dependencies]
cur = { package = "redb", path = "../cur" }
v3 = { package = "redb", path = "../v3" }

[profile.dev]
debug-assertions = true
overflow-checks = true

[lints.rust]
unexpected_cfgs = { level = "allow" }
""")
    text = open(os.path.join(HARNESS_DIR, "diff_h.rs")).read()
    text = text.replace("// @GEN", (gen_for or {}).get("diff_h.rs", ""))
    with open(os.path.join(d, "src", "h.rs"), "w") as fh:
        fh.write(text)
    with open(os.path.join(d, "src", "lib.rs"), "w") as fh:
        fh.write("#![allow(dead_code, unused_imports)]\n#[cfg(kani)]\nmod h;\n")
    # the overlay Cargo.toml of `cur` declares an empty [workspace]; as a path dependency it
    # must not
    ct = os.path.join(cur, "Cargo.toml")
    txt = open(ct).read().replace("[workspace]\n", "")
    open(ct, "w").write(txt)
    os.remove(os.path.join(cur, "Cargo.lock"))
    return d


DIFF_MOUNT = "@diff"
MOUNTS["diff_h.rs"] = (DIFF_MOUNT, "h")
