"""Overlay builder: a scratch copy of /repo's working tree with the harness modules of
/verif/harness appended to the files whose private items they need (DESIGN.md 3.1).

Nothing in /repo is modified.  The overlay is regenerated on every run, so the encoding the
solver sees is always that of /repo's *current* source.
"""
import os
import re
import shutil
import subprocess

REPO = os.environ.get("VERIF_REPO", "/repo")
VERIF = os.path.dirname(os.path.dirname(os.path.abspath(__file__)))
HARNESS_DIR = os.path.join(VERIF, "harness")

# harness file -> (source file it is mounted under, module name)
MOUNTS = {
    "bitmap_h.rs": ("src/tree_store/page_store/bitmap.rs", "verif_kani"),
    "buddy_h.rs": ("src/tree_store/page_store/buddy_allocator.rs", "verif_kani"),
    "types_h.rs": ("src/types.rs", "verif_kani"),
    "header_h.rs": ("src/tree_store/page_store/header.rs", "verif_kani"),
}


def _features_block():
    txt = open(os.path.join(REPO, "Cargo.toml")).read()
    m = re.search(r"^\[features\]\n(.*?)(?=^\[)", txt, re.S | re.M)
    feats = []
    if m:
        for line in m.group(1).splitlines():
            mm = re.match(r"^([A-Za-z0-9_\-]+)\s*=\s*\[(.*)\]", line)
            if mm:
                name = mm.group(1)
                deps = [d.strip() for d in mm.group(2).split(",") if d.strip()]
                # optional dependencies are not part of the overlay
                deps = [d for d in deps if not d.strip('"').startswith("dep:")]
                feats.append("%s = [%s]" % (name, ", ".join(deps)))
    return "\n".join(feats)


def _version():
    txt = open(os.path.join(REPO, "Cargo.toml")).read()
    m = re.search(r'^version\s*=\s*"([^"]+)"', txt, re.M)
    return m.group(1) if m else "0.0.0"


CARGO_TOML = """[package]
name = "redb"
version = "{version}"
edition = "2024"
build = "build.rs"

[workspace]

[dependencies]

[features]
{features}

[profile.dev]
debug-assertions = true
overflow-checks = true

[lints.rust]
unexpected_cfgs = {{ level = "allow" }}
"""


def build(ov, gen_for=None):
    """Create the overlay in directory `ov` (must not be inside /repo or /verif).

    gen_for: dict harness_file -> generated Rust text replacing the `// @GEN` marker.
    Returns the list of mounted harness files."""
    os.makedirs(ov, exist_ok=True)
    for sub in ("src", "h"):
        p = os.path.join(ov, sub)
        if os.path.exists(p):
            shutil.rmtree(p)
    shutil.copytree(os.path.join(REPO, "src"), os.path.join(ov, "src"))
    for f in ("build.rs", "Cargo.lock"):
        if os.path.exists(os.path.join(REPO, f)):
            shutil.copy(os.path.join(REPO, f), os.path.join(ov, f))
    with open(os.path.join(ov, "Cargo.toml"), "w") as fh:
        fh.write(CARGO_TOML.format(version=_version(), features=_features_block()))
    # Cargo.lock of the workspace names dev-dependencies that the overlay does not have; a
    # lock file with only the package itself is what the overlay needs
    with open(os.path.join(ov, "Cargo.lock"), "w") as fh:
        fh.write('version = 4\n\n[[package]]\nname = "redb"\nversion = "%s"\n' % _version())
    os.makedirs(os.path.join(ov, "h"))
    mounted = []
    for hf, (mount, modname) in MOUNTS.items():
        src = os.path.join(HARNESS_DIR, hf)
        if not os.path.exists(src):
            continue
        text = open(src).read()
        gen = (gen_for or {}).get(hf, "")
        text = text.replace("// @GEN", gen)
        dst = os.path.join(ov, "h", hf)
        with open(dst, "w") as fh:
            fh.write(text)
        target = os.path.join(ov, mount)
        if not os.path.exists(target):
            raise RuntimeError("mount point %s does not exist in /repo" % mount)
        with open(target, "a") as fh:
            fh.write('\n#[cfg(kani)]\n#[path = "%s"]\npub(crate) mod %s;\n' % (dst, modname))
        mounted.append(hf)
    return mounted
