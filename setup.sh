#!/bin/bash
# Run once after a fresh restore, offline. Everything the checks need is rebuilt by the checks
# themselves from /repo's working tree (scratch overlay per run), so setup only verifies the
# tool chain and warms Kani's own build of its library.
set -e
export CARGO_NET_OFFLINE=true
cd "$(dirname "$0")"
cargo kani --version
python3 -c "import json,sys; json.load(open('MANIFEST.json')); print('manifest ok')"
python3 check --list > /dev/null
echo "setup ok"
