//! Native re-enactment of solver counterexamples through redb's PUBLIC API (DESIGN.md 3.9).
//!
//! A counterexample of a stubbed harness cannot be played back natively (the stubs are not
//! linked outside Kani).  Instead the driver runs the scenario that corresponds to the failed
//! harness here, against the real code of /repo's working tree: a recording / failing /
//! altering storage backend drives a real `Database`, and the property's own statement is
//! checked on the outcome.  A violation found here is what gets reported (with the concrete
//! operation trace); if the scenario finds nothing, the solver result is reported as
//! inconclusive, never as a violation.
//!
//!   replay_tool <scenario> [out.json]      scenario: crash | fault | close | alter | events | visibility
//! exit 0: no violation reproduced, exit 1: violation reproduced (details in out.json)

use redb::{Database, Durability, ReadableDatabase, ReadableTable, ReadableTableMetadata, StorageBackend, TableDefinition};
use std::collections::BTreeMap;
use std::io::ErrorKind;
use std::panic::{AssertUnwindSafe, catch_unwind};
use std::sync::atomic::{AtomicU64, Ordering};
use std::sync::{Arc, Mutex};

const T1: TableDefinition<u64, &[u8]> = TableDefinition::new("t1");
const T2: TableDefinition<&str, u64> = TableDefinition::new("t2");

type Snapshot = (BTreeMap<u64, Vec<u8>>, BTreeMap<String, u64>);

#[derive(Clone, Debug)]
enum Op {
    Write(u64, Vec<u8>),
    SetLen(u64),
    Sync,
}

#[derive(Default, Debug)]
struct RecState {
    live: Vec<u8>,
    ops: Vec<Op>,
    closes: u64,
    after_close: u64,
    oob: u64,
    mutations: u64,
    fail_at: Option<u64>, // index (over all calls) of the first failing call
    fail_forever: bool,
    calls: u64,
}

#[derive(Clone, Debug, Default)]
struct Rec {
    st: Arc<Mutex<RecState>>,
}

impl Rec {
    fn with_image(image: Vec<u8>) -> Self {
        let r = Rec::default();
        r.st.lock().unwrap().live = image;
        r
    }
    fn step(&self, st: &mut RecState) -> Result<(), std::io::Error> {
        if st.closes > 0 {
            st.after_close += 1;
        }
        let idx = st.calls;
        st.calls += 1;
        if let Some(k) = st.fail_at {
            if idx == k || (st.fail_forever && idx > k) {
                return Err(std::io::Error::from(ErrorKind::Other));
            }
        }
        Ok(())
    }
}

impl StorageBackend for Rec {
    fn len(&self) -> Result<u64, std::io::Error> {
        let mut st = self.st.lock().unwrap();
        self.step(&mut st)?;
        Ok(st.live.len() as u64)
    }
    fn read(&self, offset: u64, out: &mut [u8]) -> Result<(), std::io::Error> {
        let mut st = self.st.lock().unwrap();
        let off = offset as usize;
        if off + out.len() > st.live.len() {
            st.oob += 1;
            return Err(std::io::Error::from(ErrorKind::UnexpectedEof));
        }
        self.step(&mut st)?;
        out.copy_from_slice(&st.live[off..off + out.len()]);
        Ok(())
    }
    fn set_len(&self, len: u64) -> Result<(), std::io::Error> {
        let mut st = self.st.lock().unwrap();
        st.mutations += 1;
        self.step(&mut st)?;
        st.live.resize(len as usize, 0);
        st.ops.push(Op::SetLen(len));
        Ok(())
    }
    fn sync_data(&self) -> Result<(), std::io::Error> {
        let mut st = self.st.lock().unwrap();
        st.mutations += 1;
        self.step(&mut st)?;
        st.ops.push(Op::Sync);
        Ok(())
    }
    fn write(&self, offset: u64, data: &[u8]) -> Result<(), std::io::Error> {
        let mut st = self.st.lock().unwrap();
        st.mutations += 1;
        let off = offset as usize;
        if off + data.len() > st.live.len() {
            st.oob += 1;
            return Err(std::io::Error::from(ErrorKind::UnexpectedEof));
        }
        self.step(&mut st)?;
        st.live[off..off + data.len()].copy_from_slice(data);
        st.ops.push(Op::Write(offset, data.to_vec()));
        Ok(())
    }
    fn close(&self) -> Result<(), std::io::Error> {
        let mut st = self.st.lock().unwrap();
        if st.closes > 0 {
            st.after_close += 1;
        }
        st.closes += 1;
        Ok(())
    }
}

fn snapshot(db: &Database) -> Result<Snapshot, String> {
    let txn = db.begin_read().map_err(|e| format!("begin_read: {e}"))?;
    let mut a = BTreeMap::new();
    let mut b = BTreeMap::new();
    match txn.open_table(T1) {
        Ok(t) => {
            for r in t.iter().map_err(|e| format!("iter: {e}"))? {
                let (k, v) = r.map_err(|e| format!("entry: {e}"))?;
                a.insert(k.value(), v.value().to_vec());
            }
        }
        Err(redb::TableError::TableDoesNotExist(_)) => {}
        Err(e) => return Err(format!("open t1: {e}")),
    }
    match txn.open_table(T2) {
        Ok(t) => {
            for r in t.iter().map_err(|e| format!("iter: {e}"))? {
                let (k, v) = r.map_err(|e| format!("entry: {e}"))?;
                b.insert(k.value().to_string(), v.value());
            }
        }
        Err(redb::TableError::TableDoesNotExist(_)) => {}
        Err(e) => return Err(format!("open t2: {e}")),
    }
    Ok((a, b))
}

#[derive(Clone, Copy, Debug, PartialEq)]
enum Mode {
    OnePhase,
    TwoPhase,
    NonDurable,
    QuickRepair,
}

/// One step of the scripted workload; returns whether the commit was acknowledged as durable.
fn do_commit(db: &Database, step: u64, mode: Mode, big: bool) -> Result<bool, String> {
    let mut txn = db.begin_write().map_err(|e| format!("begin_write: {e}"))?;
    match mode {
        Mode::OnePhase => {}
        Mode::TwoPhase => txn.set_two_phase_commit(true),
        Mode::NonDurable => txn.set_durability(Durability::None).map_err(|e| format!("{e}"))?,
        Mode::QuickRepair => txn.set_quick_repair(true),
    }
    {
        let mut t1 = txn.open_table(T1).map_err(|e| format!("open: {e}"))?;
        let mut t2 = txn.open_table(T2).map_err(|e| format!("open: {e}"))?;
        let n = if big { 300 } else { 3 };
        for i in 0..n {
            let v = vec![(step as u8).wrapping_add(i as u8); if big { 900 } else { 20 }];
            t1.insert(&(step * 1000 + i), v.as_slice()).map_err(|e| format!("insert: {e}"))?;
        }
        if step > 1 && step % 2 == 0 {
            t1.remove(&((step - 1) * 1000)).map_err(|e| format!("remove: {e}"))?;
        }
        if step == 7 {
            // shrink: drop the big step's data
            for i in 0..300u64 {
                let _ = t1.remove(&(4 * 1000 + i));
            }
        }
        t2.insert(format!("k{step}").as_str(), &step).map_err(|e| format!("insert: {e}"))?;
    }
    txn.commit().map_err(|e| format!("commit: {e}"))?;
    Ok(mode != Mode::NonDurable)
}

const SCRIPT: [(Mode, bool); 8] = [
    (Mode::OnePhase, false),
    (Mode::TwoPhase, false),
    (Mode::NonDurable, false),
    (Mode::OnePhase, true), // grows the file
    (Mode::TwoPhase, false),
    (Mode::NonDurable, false),
    (Mode::QuickRepair, false), // shrinks
    (Mode::OnePhase, false),
];

fn open_image(image: Vec<u8>) -> Result<(Database, Rec), String> {
    let be = Rec::with_image(image);
    let r = catch_unwind(AssertUnwindSafe(|| Database::builder().create_with_backend(be.clone())));
    match r {
        Ok(Ok(db)) => Ok((db, be)),
        Ok(Err(e)) => Err(format!("open failed: {e}")),
        Err(_) => Err("open panicked".to_string()),
    }
}

fn snap_image(image: Vec<u8>) -> Result<Snapshot, String> {
    let (db, _be) = open_image(image)?;
    let r = catch_unwind(AssertUnwindSafe(|| snapshot(&db)));
    match r {
        Ok(x) => x,
        Err(_) => Err("read panicked".to_string()),
    }
}

struct Finding {
    what: String,
    detail: String,
}

/// C01: every crash image of the scripted workload recovers to exactly one commit point between
/// the last acknowledged durable commit and the last requested one.
fn scenario_crash() -> Option<Finding> {
    let be = Rec::default();
    let db = Database::builder().create_with_backend(be.clone()).ok()?;
    // commit points: (op index at which the commit was requested, op index at which it returned, snapshot, durable)
    let mut points: Vec<(usize, usize, Snapshot, bool)> = Vec::new();
    let empty: Snapshot = (BTreeMap::new(), BTreeMap::new());
    let n0 = be.st.lock().unwrap().ops.len();
    points.push((0, n0, empty, true));
    for (i, (mode, big)) in SCRIPT.iter().enumerate() {
        let start = be.st.lock().unwrap().ops.len();
        let durable = match do_commit(&db, i as u64 + 1, *mode, *big) {
            Ok(d) => d,
            Err(e) => return Some(Finding { what: "workload failed without faults".into(), detail: e }),
        };
        let end = be.st.lock().unwrap().ops.len();
        let snap = snapshot(&db).ok()?;
        points.push((start, end, snap, durable));
    }
    let before_drop = be.st.lock().unwrap().ops.len();
    drop(db);
    let ops: Vec<Op> = be.st.lock().unwrap().ops.clone();
    // replay ops to build crash images
    let mut durable_img: Vec<u8> = Vec::new();
    let mut pending: Vec<Op> = Vec::new();
    let mut images_checked = 0u64;
    for (idx, op) in ops.iter().enumerate() {
        // crash right before `op` is issued (idx) - and for a Sync, "during" it
        let crash_here = matches!(op, Op::Sync) || idx + 1 == ops.len();
        if crash_here {
            // candidate subsets of the pending (un-synced) operations
            let hdr: Vec<usize> = pending.iter().enumerate().filter(|(_, o)| matches!(o, Op::Write(0, _))).map(|(i, _)| i).collect();
            let mut variants: Vec<(String, Vec<bool>, Option<(usize, Vec<bool>)>)> = Vec::new();
            let n = pending.len();
            variants.push(("none".into(), vec![false; n], None));
            variants.push(("all".into(), vec![true; n], None));
            if let Some(&h) = hdr.last() {
                let mut only_h = vec![false; n];
                only_h[h] = true;
                variants.push(("header only".into(), only_h.clone(), None));
                let mut all_but = vec![true; n];
                for &x in &hdr {
                    all_but[x] = false;
                }
                variants.push(("all but header".into(), all_but.clone(), None));
                // torn header: 16-byte words of the 320-byte header persisted independently
                for mask_kind in 0..24u32 {
                    let mut words = vec![true; 20];
                    match mask_kind {
                        0..=19 => words[mask_kind as usize] = false,          // one word missing
                        20 => { for w in words.iter_mut().skip(1) { *w = false; } }  // god byte only
                        21 => { words[0] = false; }                           // everything but the god byte
                        22 => { for w in 0..20 { words[w] = w % 2 == 0; } }
                        _ => { for w in 0..20 { words[w] = w % 2 == 1; } }
                    }
                    variants.push((format!("header torn (mask {mask_kind}), rest none"), vec![false; n], Some((h, words.clone()))));
                    variants.push((format!("header torn (mask {mask_kind}), rest all"), all_but.clone(), Some((h, words))));
                }
            }
            for (name, take, torn) in variants {
                let mut img = durable_img.clone();
                for (i, p) in pending.iter().enumerate() {
                    let torn_words = torn.as_ref().filter(|(h, _)| *h == i).map(|(_, w)| w.clone());
                    if !take[i] && torn_words.is_none() {
                        continue;
                    }
                    match p {
                        Op::Write(off, data) => {
                            let off = *off as usize;
                            if off + data.len() > img.len() {
                                // write beyond the persisted length: lost with the un-persisted set_len
                                continue;
                            }
                            if let Some(words) = torn_words {
                                for (w, keep) in words.iter().enumerate() {
                                    if *keep && w * 16 < data.len() {
                                        let e = (w * 16 + 16).min(data.len());
                                        img[off + w * 16..off + e].copy_from_slice(&data[w * 16..e]);
                                    }
                                }
                                // the rest of the header page (beyond 320 bytes) as written
                                if data.len() > 320 {
                                    img[off + 320..off + data.len()].copy_from_slice(&data[320..]);
                                }
                            } else {
                                img[off..off + data.len()].copy_from_slice(data);
                            }
                        }
                        Op::SetLen(l) => img.resize(*l as usize, 0),
                        Op::Sync => {}
                    }
                }
                if img.is_empty() {
                    continue;
                }
                images_checked += 1;
                // allowed commit points: last durable commit that had returned before idx .. last requested before idx
                let last_acked = points.iter().rposition(|(_, end, _, d)| *d && *end <= idx).unwrap_or(0);
                let last_requested = points.iter().rposition(|(start, _, _, _)| *start <= idx).unwrap_or(0);
                match snap_image(img) {
                    Ok(s) => {
                        let ok = (last_acked..=last_requested).any(|k| points[k].2 == s);
                        if !ok {
                            return Some(Finding {
                                what: "crash image recovers to contents that are not one permitted commit point".into(),
                                detail: format!("crash before op #{idx} ({op:?} of {} ops, drop at {before_drop}); persisted subset: {name}; permitted commit points {last_acked}..={last_requested}; recovered t2 keys: {:?}", ops.len(), s.1.keys().collect::<Vec<_>>()),
                            });
                        }
                    }
                    Err(e) => {
                        // an image whose very first creation has not completed may legitimately fail to open
                        if last_requested == 0 {
                            continue;
                        }
                        return Some(Finding {
                            what: "crash image cannot be reopened".into(),
                            detail: format!("crash before op #{idx} ({op:?}); persisted subset: {name}; permitted commit points {last_acked}..={last_requested}; error: {e}"),
                        });
                    }
                }
            }
        }
        match op {
            Op::Sync => {
                for p in pending.drain(..) {
                    match p {
                        Op::Write(off, data) => {
                            let off = off as usize;
                            if off + data.len() > durable_img.len() {
                                durable_img.resize(off + data.len(), 0);
                            }
                            durable_img[off..off + data.len()].copy_from_slice(&data);
                        }
                        Op::SetLen(l) => durable_img.resize(l as usize, 0),
                        Op::Sync => {}
                    }
                }
            }
            o => pending.push(o.clone()),
        }
    }
    eprintln!("crash: {} ops, {} crash images checked, no violation", ops.len(), images_checked);
    None
}

/// C03/C01 (events): storage-level order of a commit, observed at the backend.
///  - 2PC: the commit's first sync is preceded by all of its page writes and by a header write
///    whose god byte still names the old primary; the only write between its two syncs is the
///    header
///  - a non-durable commit issues no backend write and no sync
fn scenario_events() -> Option<Finding> {
    let be = Rec::default();
    let db = Database::builder().create_with_backend(be.clone()).ok()?;
    do_commit(&db, 1, Mode::OnePhase, false).ok()?;
    // non-durable
    let before = be.st.lock().unwrap().ops.len();
    do_commit(&db, 2, Mode::NonDurable, false).ok()?;
    let after = be.st.lock().unwrap().ops.len();
    if after != before {
        let ops = be.st.lock().unwrap().ops[before..after].iter().map(|o| match o { Op::Write(off, d) => format!("write({off},{})", d.len()), Op::SetLen(l) => format!("set_len({l})"), Op::Sync => "sync".into() }).collect::<Vec<_>>();
        return Some(Finding { what: "a non-durable commit touched the backend".into(), detail: format!("{ops:?}") });
    }
    // 2PC
    let before = be.st.lock().unwrap().ops.len();
    do_commit(&db, 3, Mode::TwoPhase, false).ok()?;
    let ops: Vec<Op> = be.st.lock().unwrap().ops[before..].to_vec();
    let syncs: Vec<usize> = ops.iter().enumerate().filter(|(_, o)| matches!(o, Op::Sync)).map(|(i, _)| i).collect();
    if syncs.len() < 2 {
        return Some(Finding { what: "a two-phase commit issued fewer than two syncs".into(), detail: format!("{} syncs", syncs.len()) });
    }
    let (s1, s2) = (syncs[syncs.len() - 2], syncs[syncs.len() - 1]);
    let between: Vec<&Op> = ops[s1 + 1..s2].iter().collect();
    let only_header = between.iter().all(|o| matches!(o, Op::Write(0, _)));
    let hdr_before = ops[..s1].iter().any(|o| matches!(o, Op::Write(0, _)));
    let data_before = ops[..s1].iter().any(|o| matches!(o, Op::Write(off, _) if *off != 0));
    if !only_header || between.is_empty() || !hdr_before || !data_before {
        return Some(Finding {
            what: "two-phase commit: pages and the new slot are not all written and synced before the primary flips".into(),
            detail: format!("writes before the first sync: header={hdr_before} data={data_before}; between the two syncs: {} ops, only header: {only_header}", between.len()),
        });
    }
    // 1PC: exactly one sync, header write before it
    let before = be.st.lock().unwrap().ops.len();
    do_commit(&db, 4, Mode::OnePhase, false).ok()?;
    let ops: Vec<Op> = be.st.lock().unwrap().ops[before..].to_vec();
    let nsync = ops.iter().filter(|o| matches!(o, Op::Sync)).count();
    let last_is_sync = matches!(ops.last(), Some(Op::Sync));
    if nsync == 0 || !last_is_sync {
        return Some(Finding { what: "one-phase commit does not end with a sync".into(), detail: format!("{nsync} syncs, last op is sync: {last_is_sync}") });
    }
    None
}

/// Backend that parks one armed `sync_data` call until released (forces the interleaving
/// "reader begins while a durable commit is between its two locked sections").
#[derive(Clone, Debug, Default)]
struct Gated {
    inner: Rec,
    gate: Arc<(Mutex<(bool, bool, bool)>, std::sync::Condvar)>, // (armed, parked, released)
}

impl StorageBackend for Gated {
    fn len(&self) -> Result<u64, std::io::Error> {
        self.inner.len()
    }
    fn read(&self, offset: u64, out: &mut [u8]) -> Result<(), std::io::Error> {
        self.inner.read(offset, out)
    }
    fn set_len(&self, len: u64) -> Result<(), std::io::Error> {
        self.inner.set_len(len)
    }
    fn sync_data(&self) -> Result<(), std::io::Error> {
        {
            let (m, cv) = &*self.gate;
            let mut g = m.lock().unwrap();
            if g.0 {
                g.0 = false;
                g.1 = true;
                cv.notify_all();
                let deadline = std::time::Instant::now() + std::time::Duration::from_secs(20);
                while !g.2 && std::time::Instant::now() < deadline {
                    g = cv.wait_timeout(g, std::time::Duration::from_millis(100)).unwrap().0;
                }
            }
        }
        self.inner.sync_data()
    }
    fn write(&self, offset: u64, data: &[u8]) -> Result<(), std::io::Error> {
        self.inner.write(offset, data)
    }
    fn close(&self) -> Result<(), std::io::Error> {
        self.inner.close()
    }
}

/// C03: what a reader that begins WHILE a durable commit is in flight observes: exactly the commit
/// point that was visible before that commit started (here: a completed non-durable commit) -
/// never an older one, never the commit that has not returned yet, never a mixture.
fn scenario_visibility() -> Option<Finding> {
    let read_t2 = |db: &Database| -> Option<(Option<u64>, Option<u64>)> {
        let txn = db.begin_read().ok()?;
        let t = txn.open_table(T2).ok()?;
        let a = t.get("a").ok()?.map(|v| v.value());
        let b = t.get("b").ok()?.map(|v| v.value());
        Some((a, b))
    };
    let put = |db: &Database, v: u64, durable: bool, two_phase: bool| -> Result<(), String> {
        let mut txn = db.begin_write().map_err(|e| e.to_string())?;
        if !durable {
            txn.set_durability(Durability::None).map_err(|e| e.to_string())?;
        }
        if two_phase {
            txn.set_two_phase_commit(true);
        }
        {
            let mut t = txn.open_table(T2).map_err(|e| e.to_string())?;
            t.insert("a", &v).map_err(|e| e.to_string())?;
            t.insert("b", &v).map_err(|e| e.to_string())?;
        }
        txn.commit().map_err(|e| e.to_string())
    };
    for two_phase in [false, true] {
        for with_pending_non_durable in [true, false] {
            let be = Gated::default();
            let db = Arc::new(Database::builder().create_with_backend(be.clone()).ok()?);
            put(&db, 0, true, false).ok()?;
            let visible = if with_pending_non_durable {
                put(&db, 1, false, false).ok()?;
                1
            } else {
                0
            };
            if read_t2(&db)? != (Some(visible), Some(visible)) {
                return Some(Finding { what: "a completed commit is not visible to a new reader".into(), detail: format!("expected {visible}") });
            }
            {
                let (m, _) = &*be.gate;
                *m.lock().unwrap() = (true, false, false);
            }
            let db2 = db.clone();
            let writer = std::thread::spawn(move || {
                let mut txn = db2.begin_write().unwrap();
                if two_phase {
                    txn.set_two_phase_commit(true);
                }
                {
                    let mut t = txn.open_table(T2).unwrap();
                    t.insert("a", &2u64).unwrap();
                    t.insert("b", &2u64).unwrap();
                }
                txn.commit().unwrap();
            });
            // wait until the durable commit is parked inside sync_data
            let parked = {
                let (m, cv) = &*be.gate;
                let mut g = m.lock().unwrap();
                let deadline = std::time::Instant::now() + std::time::Duration::from_secs(10);
                while !g.1 && std::time::Instant::now() < deadline {
                    g = cv.wait_timeout(g, std::time::Duration::from_millis(50)).unwrap().0;
                }
                g.1
            };
            let seen = if parked { read_t2(&db) } else { None };
            {
                let (m, cv) = &*be.gate;
                m.lock().unwrap().2 = true;
                cv.notify_all();
            }
            let _ = writer.join();
            if let Some(seen) = seen {
                if seen != (Some(visible), Some(visible)) {
                    return Some(Finding {
                        what: "a reader that began while a durable commit was in flight did not observe the commit point visible before it".into(),
                        detail: format!("two_phase={two_phase}, pending non-durable commit={with_pending_non_durable}: expected both keys = {visible}, observed {seen:?}"),
                    });
                }
            }
            if read_t2(&db)? != (Some(2), Some(2)) {
                return Some(Finding { what: "a returned commit is not visible".into(), detail: "expected 2".into() });
            }
        }
    }
    None
}

/// C08: a failure of the k-th backend call (for every k in the workload): the operation reports an
/// error or completes correctly, later write transactions are refused until reopen, nothing panics,
/// and the file reopens to a commit point no older than the last acknowledged durable commit.
fn scenario_fault() -> Option<Finding> {
    // count calls of a fault-free run
    let probe = Rec::default();
    {
        let db = Database::builder().create_with_backend(probe.clone()).ok()?;
        for (i, (mode, big)) in SCRIPT.iter().take(5).enumerate() {
            do_commit(&db, i as u64 + 1, *mode, *big).ok()?;
        }
    }
    let total = probe.st.lock().unwrap().calls;
    let step = if total > 400 { total / 400 } else { 1 };
    let mut k = 0;
    while k < total {
        for forever in [false, true] {
            let be = Rec::default();
            {
                let mut st = be.st.lock().unwrap();
                st.fail_at = Some(k);
                st.fail_forever = forever;
            }
            let mut acked: Vec<Snapshot> = vec![(BTreeMap::new(), BTreeMap::new())];
            let mut requested: Vec<Snapshot> = acked.clone();
            let mut last_acked_durable = 0usize;
            let r = catch_unwind(AssertUnwindSafe(|| -> Result<(), String> {
                let db = match Database::builder().create_with_backend(be.clone()) {
                    Ok(db) => db,
                    Err(_) => return Ok(()),
                };
                let mut failed = false;
                for (i, (mode, big)) in SCRIPT.iter().take(5).enumerate() {
                    // expected contents if this commit succeeds
                    let res = do_commit(&db, i as u64 + 1, *mode, *big);
                    match res {
                        Ok(durable) => {
                            if failed && !forever {
                                // transient failure: later commits must still be refused
                                return Err(format!("write transaction {} succeeded after an earlier storage failure", i + 1));
                            }
                            if let Ok(s) = snapshot(&db) {
                                requested.push(s.clone());
                                acked.push(s);
                                if durable {
                                    last_acked_durable = acked.len() - 1;
                                }
                            }
                        }
                        Err(_) => {
                            failed = true;
                            // the failed commit may or may not have reached the disk
                        }
                    }
                }
                Ok(())
            }));
            match r {
                Err(_) => {
                    return Some(Finding { what: "a storage failure caused a panic".into(), detail: format!("backend call #{k} failed (permanent: {forever})") });
                }
                Ok(Err(e)) => return Some(Finding { what: e, detail: format!("backend call #{k} failed (permanent: {forever})") }),
                Ok(Ok(())) => {}
            }
            let _ = requested;
            // reopen what is on "disk" (everything written reached the medium: no crash here)
            let img = be.st.lock().unwrap().live.clone();
            if img.is_empty() {
                continue;
            }
            match snap_image(img) {
                Ok(s) => {
                    // must be at least the last acknowledged durable commit: one of acked[last_acked_durable..] or the failed one (unknown contents: any superset step)
                    let known = acked[last_acked_durable..].iter().any(|a| *a == s);
                    let t2max = s.1.values().max().copied().unwrap_or(0);
                    let acked_max = acked[last_acked_durable].1.values().max().copied().unwrap_or(0);
                    if !known && t2max < acked_max {
                        return Some(Finding { what: "after a storage failure the file reopened to a state older than the last acknowledged durable commit".into(), detail: format!("backend call #{k} failed (permanent: {forever}); reopened step {t2max} < acknowledged {acked_max}") });
                    }
                }
                Err(e) => {
                    if last_acked_durable > 0 {
                        return Some(Finding { what: "after a storage failure the file cannot be reopened".into(), detail: format!("backend call #{k} failed (permanent: {forever}): {e}") });
                    }
                }
            }
        }
        k += step;
    }
    None
}

/// C20: close() exactly once, nothing after it, all I/O inside the current length; a read-only
/// open never mutates.
fn scenario_close() -> Option<Finding> {
    let check = |be: &Rec, what: &str| -> Option<Finding> {
        let st = be.st.lock().unwrap();
        if st.closes != 1 || st.after_close != 0 || st.oob != 0 {
            return Some(Finding { what: format!("backend contract violated ({what})"), detail: format!("close calls: {}, calls after close: {}, out-of-bounds accesses: {}", st.closes, st.after_close, st.oob) });
        }
        None
    };
    // normal lifecycle
    let be = Rec::default();
    {
        let db = Database::builder().create_with_backend(be.clone()).ok()?;
        do_commit(&db, 1, Mode::OnePhase, false).ok()?;
        do_commit(&db, 2, Mode::OnePhase, true).ok()?;
    }
    if let Some(f) = check(&be, "create, commit, drop") {
        return Some(f);
    }
    let img = be.st.lock().unwrap().live.clone();
    // database dropped while a write transaction is live
    let be2 = Rec::with_image(img.clone());
    {
        let db = Database::builder().create_with_backend(be2.clone()).ok()?;
        let txn = db.begin_write().ok()?;
        drop(db);
        {
            let st = be2.st.lock().unwrap();
            if st.closes != 0 {
                return Some(Finding { what: "backend closed while a write transaction is still live".into(), detail: format!("close calls: {}", st.closes) });
            }
        }
        {
            let mut t = txn.open_table(T2).ok()?;
            t.insert("late", &99).ok()?;
        }
        txn.commit().ok()?;
    }
    if let Some(f) = check(&be2, "database dropped before its write transaction") {
        return Some(f);
    }
    // database dropped while a write transaction is live AND the backend has failed during it
    let be2f = Rec::with_image(be.st.lock().unwrap().live.clone());
    {
        let db = Database::builder().set_cache_size(0).create_with_backend(be2f.clone()).ok()?;
        let txn = db.begin_write().ok()?;
        {
            let mut st = be2f.st.lock().unwrap();
            st.fail_at = Some(st.calls);
            st.fail_forever = true;
        }
        {
            // large inserts force backend traffic (growth, evictions) so that the failure is hit
            if let Ok(mut t) = txn.open_table(T1) {
                for i in 0..400u64 {
                    if t.insert(&(900_000 + i), vec![7u8; 3000].as_slice()).is_err() {
                        break;
                    }
                }
            }
        }
        drop(db);
        {
            let st = be2f.st.lock().unwrap();
            if st.closes != 0 {
                return Some(Finding { what: "backend closed by Database::drop while a (failed) write transaction is still live".into(), detail: format!("close calls: {}", st.closes) });
            }
        }
        drop(txn);
    }
    {
        let st = be2f.st.lock().unwrap();
        if st.closes != 1 || st.after_close != 0 {
            return Some(Finding { what: "backend contract violated (database dropped before a failed live write transaction)".into(), detail: format!("close calls: {}, calls after close: {}", st.closes, st.after_close) });
        }
    }
    // failing open (garbage file)
    let be3 = Rec::with_image(vec![0x55; 8192]);
    let r = Database::builder().create_with_backend(be3.clone());
    drop(r);
    if let Some(f) = check(&be3, "open of an invalid file fails") {
        return Some(f);
    }
    // read-only open (through a real file: the public API has no read-only open on a backend)
    let dir = std::env::temp_dir().join(format!("verif-replay-ro-{}", std::process::id()));
    let _ = std::fs::create_dir_all(&dir);
    let path = dir.join("ro.redb");
    if std::fs::write(&path, &img).is_ok() {
        {
            if let Ok(db) = redb::Builder::new().open_read_only(&path) {
                let _ = db.begin_read().ok().map(|t| t.open_table(T2).ok().map(|t| t.len()));
            }
        }
        let after = std::fs::read(&path).unwrap_or_default();
        let _ = std::fs::remove_dir_all(&dir);
        if after != img {
            return Some(Finding { what: "a read-only database modified the file".into(), detail: format!("length {} -> {}", img.len(), after.len()) });
        }
    }
    None
}

/// C12: alter bytes of a closed database file; check_integrity() must report the damage
/// (Ok(false) or Err) unless the contents served afterwards are exactly one commit point.
fn scenario_alter() -> Option<Finding> {
    alter_with(false)
}

/// as `alter`, on a database whose data tree has branch pages (one commit of 300 x 900-byte
/// values): a few positions in EVERY leaf and branch page, so that damage under any child of a
/// branch - the last one included - must be reported
fn scenario_alter_tree() -> Option<Finding> {
    alter_with(true)
}

/// C20 (open path): a failed open of a file that carries the magic number but is shorter than the
/// header, or is cut anywhere else, closes the backend once and never reads past the current length
fn scenario_short_open() -> Option<Finding> {
    let be = Rec::default();
    {
        let db = Database::builder().create_with_backend(be.clone()).ok()?;
        do_commit(&db, 1, Mode::OnePhase, false).ok()?;
    }
    let img = be.st.lock().unwrap().live.clone();
    for k in [9usize, 10, 64, 100, 319, 320, 321, 511, 512, 513, 4095, 4096, 4097, 8192, img.len() - 1] {
        if k >= img.len() {
            continue;
        }
        let be2 = Rec::with_image(img[..k].to_vec());
        let r = catch_unwind(AssertUnwindSafe(|| Database::builder().create_with_backend(be2.clone()).map(|_| ())));
        let st = be2.st.lock().unwrap();
        if st.oob != 0 || st.closes != 1 || st.after_close != 0 {
            return Some(Finding {
                what: "opening a truncated file violates the backend contract".into(),
                detail: format!("file cut to {k} bytes: out-of-bounds accesses {}, close calls {}, calls after close {}, open result: {}", st.oob, st.closes, st.after_close,
                    match &r { Ok(Ok(())) => "Ok".to_string(), Ok(Err(e)) => format!("Err({e})"), Err(_) => "panic".to_string() }),
            });
        }
    }
    None
}

fn alter_with(tree: bool) -> Option<Finding> {
    let be = Rec::default();
    let mut points: Vec<Snapshot> = vec![(BTreeMap::new(), BTreeMap::new())];
    {
        let db = Database::builder().create_with_backend(be.clone()).ok()?;
        for (i, (mode, big)) in [(Mode::OnePhase, false), (Mode::TwoPhase, tree), (Mode::OnePhase, false)].iter().enumerate() {
            do_commit(&db, i as u64 + 1, *mode, *big).ok()?;
            points.push(snapshot(&db).ok()?);
        }
    }
    let img = be.st.lock().unwrap().live.clone();
    let page = 4096usize;
    // positions: every byte of the 320-byte header, and the first 96 bytes + a stride of every page
    let mut positions: Vec<usize> = if tree { Vec::new() } else { (0..320).collect() };
    let mut p = page;
    while p < img.len() {
        if img[p] == 1 || img[p] == 2 {
            if tree {
                for o in [4usize, 9, 41, 1000, 2000, 3000] {
                    positions.push(p + o);
                }
            } else {
                for o in 0..96 {
                    positions.push(p + o);
                }
                let mut o = 96;
                while o < page {
                    positions.push(p + o);
                    o += 37;
                }
            }
        }
        p += page;
    }
    let static_counter = AtomicU64::new(0);
    for &pos in &positions {
        for delta in [0x01u8, 0x80, 0xFF] {
            if tree && delta != 0x01 {
                continue;
            }
            let mut alt = img.clone();
            let old = alt[pos];
            alt[pos] = if delta == 0xFF { !old } else { old ^ delta };
            if alt[pos] == old {
                continue;
            }
            static_counter.fetch_add(1, Ordering::Relaxed);
            let r = catch_unwind(AssertUnwindSafe(|| -> Result<Option<(bool, Result<Snapshot, String>)>, String> {
                let be = Rec::with_image(alt.clone());
                let mut db = match Database::builder().create_with_backend(be) {
                    Ok(db) => db,
                    Err(_) => return Ok(None), // damage reported at open
                };
                match db.check_integrity() {
                    Ok(clean) => {
                        // reading the certified database must not panic either
                        let snap = match catch_unwind(AssertUnwindSafe(|| snapshot(&db))) {
                            Ok(s) => s,
                            Err(_) => Err("reading the database panicked".to_string()),
                        };
                        Ok(Some((clean, snap)))
                    }
                    Err(_) => Ok(None),
                }
            }));
            match r {
                Err(_) => { /* a panic on a corrupt file is not a certification; C12 is about Ok(true) */ }
                Ok(Err(_)) | Ok(Ok(None)) => {}
                Ok(Ok(Some((clean, snap)))) => {
                    let is_point = match &snap {
                        Ok(s) => points.iter().any(|p| p == s),
                        Err(_) => false,
                    };
                    if clean && !is_point {
                        return Some(Finding {
                            what: "check_integrity() returned Ok(true) on an altered file whose contents are not a commit point".into(),
                            detail: format!("byte at offset {pos} (page {}, offset in page {}) changed from {old:#04x} by xor/not {delta:#04x}; contents: {:?}", pos / page, pos % page, snap.as_ref().map(|s| s.1.keys().cloned().collect::<Vec<_>>())),
                        });
                    }
                    if !clean && !is_point {
                        return Some(Finding {
                            what: "after a reported repair the database does not hold a committed state".into(),
                            detail: format!("byte at offset {pos} changed from {old:#04x} (delta {delta:#04x})"),
                        });
                    }
                }
            }
        }
    }
    eprintln!("alter: {} alterations checked, no violation", static_counter.load(Ordering::Relaxed));
    None
}

fn main() {
    let args: Vec<String> = std::env::args().collect();
    let scenario = args.get(1).map(String::as_str).unwrap_or("");
    let out = args.get(2).cloned();
    std::panic::set_hook(Box::new(|_| {}));
    let f = match scenario {
        "crash" => scenario_crash(),
        "events" => scenario_events(),
        "visibility" => scenario_visibility(),
        "fault" => scenario_fault(),
        "close" => scenario_close(),
        "alter" => scenario_alter(),
        "alter_tree" => scenario_alter_tree(),
        "short_open" => scenario_short_open(),
        _ => {
            eprintln!("unknown scenario");
            std::process::exit(2);
        }
    };
    match f {
        Some(f) => {
            let js = format!("{{\"scenario\": {:?}, \"reproduced\": true, \"what\": {:?}, \"detail\": {:?}}}", scenario, f.what, f.detail);
            println!("{js}");
            if let Some(o) = out {
                let _ = std::fs::write(o, js);
            }
            std::process::exit(1);
        }
        None => {
            println!("{{\"scenario\": {:?}, \"reproduced\": false}}", scenario);
            std::process::exit(0);
        }
    }
}
